package props

import (
	"strings"
	"testing"

	"pgregory.net/rapid"

	"verif/harness"
)

// ---- C12: one-time secrets are consumed by the login they enable and never work twice

type monC12 struct {
	otp      map[string]map[string]int // pid -> unused otp -> count
	rec      map[string]map[string]int
	spent    map[string]bool // every secret the model saw consumed or invalidated
	seenOTP  map[string]int
	seenRec  map[string]int
	lastTOTP map[string]string
	sms      []*smsSent
}

func (c *monC12) Init(m *Machine) {
	c.otp, c.rec = map[string]map[string]int{}, map[string]map[string]int{}
	c.spent, c.seenOTP, c.seenRec, c.lastTOTP = map[string]bool{}, map[string]int{}, map[string]int{}, map[string]string{}
	c.sms = make([]*smsSent, len(m.W.Jars))
	c.absorb(m, nil)
}

// absorb folds newly shown secrets into the model.
func (c *monC12) absorb(m *Machine, s *Step) {
	for _, a := range m.KB.Accts {
		if c.otp[a.PID] == nil {
			c.otp[a.PID], c.rec[a.PID] = map[string]int{}, map[string]int{}
		}
		for i := c.seenOTP[a.PID]; i < len(a.OTPs); i++ {
			c.otp[a.PID][a.OTPs[i]]++
		}
		c.seenOTP[a.PID] = len(a.OTPs)
		if n := len(a.Rec); n > c.seenRec[a.PID] {
			if s != nil {
				// a new set was shown: every older code is dead
				for k := range c.rec[a.PID] {
					c.spent[k] = true
				}
				c.rec[a.PID] = map[string]int{}
			}
			for i := c.seenRec[a.PID]; i < n; i++ {
				c.rec[a.PID][a.Rec[i]]++
			}
			c.seenRec[a.PID] = n
		}
	}
}

func count(m map[string]int) int {
	n := 0
	for _, v := range m {
		n += v
	}
	return n
}

// findCode: first unconsumed record of the chain carrying this code.
func (p *smsSent) findCode(code string) *smsSent {
	for ; p != nil; p = p.alt {
		if !p.consumed && p.code == code {
			return p
		}
	}
	return nil
}

// afterFault judges a one-time-secret step during which a backend call failed.
// Whether the step succeeds is then up to where the failure hit; what must
// still hold is the safety half of the property: a session (or a parked 2FA
// login) is only issued for an unused value, and that value is gone from
// storage by then. A value burnt without a login is merely removed from the model.
func (c *monC12) afterFault(m *Machine, s *Step, prevSMS *smsSent) *Violation {
	op, r := s.Op, s.Resp
	m.flag("fault-in-one-time-step")
	issued := r.UID() != "" && r.UID() != r.UIDBefore()
	for _, k := range pendingKeys {
		if r.SessAfter[k] != "" && r.SessAfter[k] != r.SessBefore[k] {
			issued = true
		}
	}
	take := func(pool map[string]int) {
		pool[s.Secret]--
		if pool[s.Secret] <= 0 {
			delete(pool, s.Secret)
		}
		c.spent[s.Secret] = true
	}
	fs := ":fault=" + r.Fired
	if op.K == "otplogin" {
		pre, ok := s.Pre.Users[s.Pid]
		if !ok {
			return nil
		}
		post := s.Post.Users[s.Pid]
		unused := c.otp[s.Pid]
		had := unused[s.Secret] > 0
		if issued {
			if !had {
				return violation("C12", "otp-outcome-disagrees:not-unused"+fs, "otp login of %q with a value that is not an unused one-time password issued a session although backend call %s failed", s.Pid, r.Fired)
			}
			if otpInList(post.OTPs, s.Secret) && unused[s.Secret] == 1 {
				return violation("C12", "otp-not-consumed"+fs, "otp login of %q issued a session but storage still verifies the used one-time password (backend call %s failed)", s.Pid, r.Fired)
			}
			take(unused)
			m.flag("used:otp")
		} else if had && len(splitCSV(post.OTPs)) < len(splitCSV(pre.OTPs)) {
			take(unused)
			m.flag("burnt-without-login:otp")
		}
		return nil
	}
	kind := "totp"
	if op.K == "smsvalidate" {
		kind = "sms"
	}
	who := r.UIDBefore()
	if who == "" {
		who = r.SessBefore[pendingKeys[kind]]
	}
	pre, ok := s.Pre.Users[who]
	if !ok {
		return nil
	}
	post := s.Post.Users[who]
	switch {
	case op.F && s.Secret != "":
		unused := c.rec[who]
		had := unused[s.Secret] > 0
		if issued {
			if !had {
				return violation("C12", "recovery-outcome-disagrees:not-unused:"+op.K+fs, "%s of %q with a recovery code that is not an unused one issued a session although backend call %s failed", op.K, who, r.Fired)
			}
			if recoveryInList(post.RecoveryCodes, s.Secret) {
				return violation("C12", "recovery-not-consumed:"+op.K+fs, "%s of %q issued a session but storage still verifies the used recovery code (backend call %s failed)", op.K, who, r.Fired)
			}
			take(unused)
			m.flag("used:recovery")
		} else if had && len(splitCSV(post.RecoveryCodes)) < len(splitCSV(pre.RecoveryCodes)) {
			take(unused)
			m.flag("burnt-without-login:recovery")
		}
	case kind == "sms" && s.Secret != "":
		if issued {
			hit := prevSMS.find(s.Secret, pre.SMSPhone)
			if hit == nil {
				return violation("C12", "sms-code-used-twice-or-foreign"+fs, "sms validate of %q issued a session with %q; latest code for this browser: %+v", who, s.Secret, prevSMS)
			}
			hit.consumed = true
			m.flag("used:sms")
		}
	case kind == "totp" && m.C.Cfg.OneTimeTOTP && pre.TOTPSecretKey != "":
		code := strings.TrimSpace(s.Secret)
		if issued {
			if c.lastTOTP[who] == code {
				return violation("C12", "totp-code-accepted-twice:exact"+fs, "with replay protection on, %q logged in twice in a row with the same TOTP code (%q)", who, s.Secret)
			}
			if strings.TrimSpace(post.TOTPLastCode) != code {
				return violation("C12", "totp-last-code-not-saved"+fs, "with replay protection on, %q got a session but the accepted code was not stored (backend call %s failed)", who, r.Fired)
			}
			c.lastTOTP[who] = code
			m.flag("used:totp")
		} else if post.TOTPLastCode != pre.TOTPLastCode {
			c.lastTOTP[who] = ""
		}
	}
	return nil
}

func (c *monC12) After(m *Machine, s *Step) *Violation {
	defer c.absorb(m, s)
	if s.Resp == nil {
		return nil
	}
	op, r := s.Op, s.Resp
	b := op.B % len(m.W.Jars)
	prevSMS := c.sms[b]
	if n := len(r.SMS); n > 0 {
		c.sms[b] = &smsSent{code: r.SMS[n-1].Code, number: r.SMS[n-1].Number}
		if r.Fired != "" {
			c.sms[b].alt = prevSMS // the faulted request may not have stored the new code in the session
		}
	}
	accepted := r.Location != "" && r.Rec.HandlerErr == nil && r.Panic == nil && !strings.HasPrefix(r.Location, "/notok")
	if r.Fired != "" && (op.K == "otplogin" || op.K == "totpvalidate" || op.K == "smsvalidate") {
		return c.afterFault(m, s, prevSMS)
	}
	switch op.K {
	case "otplogin":
		pre, ok := s.Pre.Users[s.Pid]
		if !ok {
			return nil
		}
		post := s.Post.Users[s.Pid]
		unused := c.otp[s.Pid]
		want := unused[s.Secret] > 0
		if c.spent[s.Secret] && !want {
			m.flag("replay-of-spent:otp")
		}
		if want != accepted {
			cls := "unused"
			if !want {
				cls = "not-unused:" + op.Src
				if c.spent[s.Secret] {
					cls = "spent"
				}
			}
			return violation("C12", "otp-outcome-disagrees:"+cls, "otp login of %q with a value the model holds as %s ended accepted=%v (status %d location %q)", s.Pid, cls, accepted, r.Status, r.Location)
		}
		if !want {
			if pre.OTPs != post.OTPs {
				return violation("C12", "rejected-otp-changed-list", "a rejected otp login changed the stored otp list of %q", s.Pid)
			}
			return nil
		}
		unused[s.Secret]--
		if unused[s.Secret] == 0 {
			delete(unused, s.Secret)
		}
		c.spent[s.Secret] = true
		m.flag("used:otp")
		if otpInList(post.OTPs, s.Secret) && unused[s.Secret] == 0 {
			return violation("C12", "otp-not-consumed", "otp login of %q succeeded but storage still verifies the used one-time password", s.Pid)
		}
		if len(splitCSV(post.OTPs)) != len(splitCSV(pre.OTPs))-1 {
			return violation("C12", "otp-list-size", "after a successful otp login the list of %q went from %d to %d entries", s.Pid, len(splitCSV(pre.OTPs)), len(splitCSV(post.OTPs)))
		}
		for o := range unused {
			if !otpInList(post.OTPs, o) {
				return violation("C12", "otp-collateral-loss", "using one otp of %q made another unused one stop verifying", s.Pid)
			}
		}
	case "otpadd":
		who := r.UIDBefore()
		pre, ok := s.Pre.Users[who]
		if !ok {
			return nil
		}
		post := s.Post.Users[who]
		n0, n1 := len(splitCSV(pre.OTPs)), len(splitCSV(post.OTPs))
		if n1 > 5 {
			return violation("C12", "more-than-five-otps", "%q now has %d one-time passwords", who, n1)
		}
		if n0 >= 5 && pre.OTPs != post.OTPs {
			return violation("C12", "add-beyond-limit-changed-list", "adding a 6th otp changed the stored list of %q", who)
		}
		if n0 >= 5 {
			m.flag("add-at-limit")
		}
	case "otpclear":
		who := r.UIDBefore()
		if _, ok := s.Pre.Users[who]; ok && r.Rec.HandlerErr == nil && r.Rec.HandlerRan {
			for k := range c.otp[who] {
				c.spent[k] = true
			}
			c.otp[who] = map[string]int{}
			if s.Post.Users[who].OTPs != "" {
				return violation("C12", "clear-left-otps", "clearing left one-time passwords stored for %q", who)
			}
			m.flag("cleared")
		}
	case "totpvalidate", "smsvalidate", "totpremove", "smsremove":
		kind := "totp"
		if strings.HasPrefix(op.K, "sms") {
			kind = "sms"
		}
		if !m.C.Cfg.HasSetup(kind) {
			return nil // the module's routes do not exist in this configuration
		}
		who := r.UIDBefore()
		if who == "" && strings.HasSuffix(op.K, "validate") {
			who = r.SessBefore[pendingKeys[kind]]
		}
		pre, ok := s.Pre.Users[who]
		if !ok {
			return nil
		}
		if strings.HasSuffix(op.K, "remove") && (r.SessBefore["halfauth"] != "" || r.UIDBefore() == "") {
			return nil
		}
		post := s.Post.Users[who]
		success := accepted
		if after := r.UID(); strings.HasSuffix(op.K, "validate") && accepted && after != "" && after != who {
			// the code was checked against who (the session's user, else the parked login): nobody else may come out logged in
			return violation("C12", "code-of-one-account-logged-in-another:"+op.K, "%s checked the submitted value against %q, yet the session now names %q", op.K, who, after)
		}
		if strings.HasSuffix(op.K, "remove") {
			success = r.Rec.HandlerErr == nil && ((kind == "totp" && pre.TOTPSecretKey != "" && post.TOTPSecretKey == "") || (kind == "sms" && pre.SMSPhone != "" && post.SMSPhone == ""))
		}
		if op.F && s.Secret != "" {
			if kind == "totp" && pre.TOTPSecretKey == "" {
				return nil
			}
			unused := c.rec[who]
			want := unused[s.Secret] > 0
			if c.spent[s.Secret] && !want {
				m.flag("replay-of-spent:recovery")
			}
			if kind == "sms" && strings.HasSuffix(op.K, "remove") && pre.SMSPhone == "" {
				success = want // nothing to observe on the number; judge by consumption below
			}
			if want != success {
				cls := "unused"
				if !want {
					cls = "not-unused:" + op.Src
					if c.spent[s.Secret] {
						cls = "spent"
					}
				}
				return violation("C12", "recovery-outcome-disagrees:"+cls+":"+op.K, "%s of %q with a recovery code the model holds as %s ended success=%v (status %d location %q err %v)", op.K, who, cls, success, r.Status, r.Location, r.Rec.HandlerErr)
			}
			if !want {
				if pre.RecoveryCodes != post.RecoveryCodes {
					return violation("C12", "rejected-recovery-changed-list", "a rejected recovery code changed the stored list of %q", who)
				}
				return nil
			}
			unused[s.Secret]--
			if unused[s.Secret] == 0 {
				delete(unused, s.Secret)
			}
			c.spent[s.Secret] = true
			m.flag("used:recovery")
			if recoveryInList(post.RecoveryCodes, s.Secret) {
				return violation("C12", "recovery-not-consumed:"+op.K, "%s of %q succeeded but storage still verifies the used recovery code", op.K, who)
			}
			if len(splitCSV(post.RecoveryCodes)) != len(splitCSV(pre.RecoveryCodes))-1 {
				return violation("C12", "recovery-list-size", "after using a recovery code the list of %q went from %d to %d entries", who, len(splitCSV(pre.RecoveryCodes)), len(splitCSV(post.RecoveryCodes)))
			}
			for o := range unused {
				if !recoveryInList(post.RecoveryCodes, o) {
					return violation("C12", "recovery-collateral-loss", "using one recovery code of %q made another unused one stop verifying", who)
				}
			}
			return nil
		}
		// code paths
		if kind == "sms" && op.K == "smsvalidate" && s.Secret != "" && !op.F {
			if success {
				m.flag("used:sms")
				hit := prevSMS.find(s.Secret, pre.SMSPhone)
				if hit == nil {
					return violation("C12", "sms-code-used-twice-or-foreign", "sms validate of %q (registered number %q) succeeded with %q; latest code for this browser: %+v", who, pre.SMSPhone, s.Secret, prevSMS)
				}
				hit.consumed = true
				if _, still := r.SessAfter["sms_secret"]; still {
					return violation("C12", "sms-code-left-in-session", "after a successful sms validate the code is still in the session")
				}
			} else if prevSMS != nil && prevSMS.consumed && prevSMS.code == s.Secret {
				m.flag("replay-of-spent:sms")
			}
		}
		if kind == "totp" && op.K == "totpvalidate" && !op.F && m.C.Cfg.OneTimeTOTP && pre.TOTPSecretKey != "" {
			code := strings.TrimSpace(s.Secret) // the same digits with surrounding blanks are the same code
			if success {
				if c.lastTOTP[who] == code {
					cls := "exact"
					if code != s.Secret {
						cls = "whitespace-variant"
					}
					return violation("C12", "totp-code-accepted-twice:"+cls, "with replay protection on, %q logged in twice in a row with the same TOTP code (%q)", who, s.Secret)
				}
				if strings.TrimSpace(post.TOTPLastCode) != code {
					return violation("C12", "totp-last-code-not-saved", "with replay protection on, the accepted code of %q was not stored", who)
				}
				c.lastTOTP[who] = code
				m.flag("used:totp")
			} else if c.lastTOTP[who] == code && code != "" {
				m.flag("replay-of-spent:totp")
			} else if post.TOTPLastCode != pre.TOTPLastCode {
				c.lastTOTP[who] = "" // a rejected code was recorded as last code: any later code is 'different'
			}
		}
		if kind == "totp" && op.K == "totpremove" && !op.F && m.C.Cfg.OneTimeTOTP && pre.TOTPSecretKey != "" {
			// the step that disables the factor takes a code too: the one accepted last does not work there either
			code := strings.TrimSpace(s.Secret)
			if success && code != "" && c.lastTOTP[who] == code {
				return violation("C12", "totp-code-accepted-twice:remove", "with replay protection on, the TOTP code %q that %q used last was accepted again by the remove step", s.Secret, who)
			}
			if !success && c.lastTOTP[who] == code && code != "" {
				m.flag("replay-of-spent:totp")
			}
		}
	case "totpconfirm":
		// the code that confirmed an enrolment counts as that account's last accepted code
		who := r.UIDBefore()
		pre, ok := s.Pre.Users[who]
		if ok && m.C.Cfg.OneTimeTOTP && s.Post.Users[who].TOTPSecretKey != "" && s.Post.Users[who].TOTPSecretKey != pre.TOTPSecretKey {
			c.lastTOTP[who] = strings.TrimSpace(s.Secret)
			m.flag("used:totp-enrolment")
		}
	case "regen":
		who := r.UIDBefore()
		if _, ok := s.Pre.Users[who]; ok && s.Pre.Users[who].RecoveryCodes != s.Post.Users[who].RecoveryCodes {
			m.flag("regenerated")
		}
	}
	return nil
}

// End: every remaining one-time password still works exactly once.
func (c *monC12) End(m *Machine) *Violation {
	c.absorb(m, nil)
	if !m.C.Cfg.Has("otp") {
		return nil
	}
	for pid, unused := range c.otp {
		if _, ok := m.W.Store.Snapshot().Users[pid]; !ok {
			continue
		}
		for o := range unused {
			m.W.Jars[0].ClearSession()
			r := m.W.Do(harness.Req{Browser: 0, Method: "POST", Path: m.W.Path("/otp/login"), Form: map[string]string{m.pidField(): pid, "password": o}})
			if r.Location == "" || r.Rec.HandlerErr != nil {
				return violation("C12", "unused-otp-dead-at-end", "at the end of the history an unused one-time password of %q no longer works (status %d)", pid, r.Status)
			}
			m.W.Jars[0].ClearSession()
			r = m.W.Do(harness.Req{Browser: 0, Method: "POST", Path: m.W.Path("/otp/login"), Form: map[string]string{m.pidField(): pid, "password": o}})
			if r.Location != "" && unused[o] == 1 {
				return violation("C12", "otp-worked-twice-at-end", "a one-time password of %q worked twice in the final sweep", pid)
			}
			m.flag("final-sweep")
		}
	}
	return nil
}

var kindsC12 = []wk{
	{"otplogin", 22}, {"otpadd", 10}, {"otpclear", 2}, {"login", 12}, {"totpvalidate", 12}, {"smsvalidate", 12}, {"smsresend", 3},
	{"regen", 1}, {"newsess", 5}, {"logout", 4}, {"advance", 4}, {"totpremove", 2}, {"smsremove", 2},
	{"snip:otp", 14}, {"snip:2fa", 8}, {"snip:rec2fa", 10}, {"snip:enrolreplay", 3}, {"snip:removereplay", 5}, {"snip:smsfaultreplay", 6}, {"snip:switch2fa", 6},
}

var profC12 = profile{
	must: []string{"auth", "otp", "logout"}, may: []string{"recover", "lock", "remember"},
	setups: []string{"totp", "sms", "recovery"}, kinds: kindsC12, minOps: 14, maxOps: 36,
	accts: [2]int{2, 3}, browsers: [2]int{1, 2}, middlewares: []string{""},
	// "removed durably before the session is issued": the steps that use a one-time value also run with a backend call failed
	faultPct: 10, faultOps: []string{"otplogin", "totpvalidate", "smsvalidate"},
	cancelPct: 5,
	tweak: func(t *rapid.T, c *harness.Config) {
		c.EmailAuth = false
		// lock may be loaded for its hooks (they save the request's user object) but must never lock here
		c.LockAfter, c.LockWindowS = 100000, 60
		for i := range c.Accounts {
			a := &c.Accounts[i]
			a.Locked, a.Unconfirmed = false, false
			a.OTPs = rapid.IntRange(0, 5).Draw(t, "otps12")
			if a.TOTP || a.Phone != "" {
				a.Recovery = rapid.IntRange(1, 3).Draw(t, "rec12")
			}
		}
	},
}

func TestC12(t *testing.T) {
	st("C12").Rule = "one-time-secret machine with database-like (copying) storage, TOTP replay protection on/off: generate / use / replay / clear / regenerate of one-time passwords, recovery codes, SMS login codes and TOTP codes across 2-3 accounts and 1-2 browsers, candidates incl. empty values, stored hashes and other accounts' live secrets; " +
		"oracle: model multisets of unused secrets, storage re-verified after each use, final sweep; non-trivial = a successful use and a later replay of a spent value; distinct by FNV of the abstract trace"
	runWorldProp(t, "C12", profC12, func() Monitor { return &monC12{} }, func(m *Machine) bool {
		used, replay := false, false
		for f := range m.Flags {
			if strings.HasPrefix(f, "used:") {
				used = true
			}
			if strings.HasPrefix(f, "replay-of-spent:") {
				replay = true
			}
		}
		return used && replay
	})
}

func init() {
	replayers["world:C12"] = worldReplayer(func() Monitor { return &monC12{} })
}
