package props

import (
	"encoding/json"
	"os"
	"path/filepath"
	"sort"
	"strings"
	"testing"
)

// replayers run a saved case without rapid: the plain regression check.
var replayers = map[string]func(raw json.RawMessage) (*Violation, error){}

func init() {
	replayers["c11"] = func(raw json.RawMessage) (*Violation, error) {
		var c c11Case
		if err := json.Unmarshal(raw, &c); err != nil {
			return nil, err
		}
		return c11Run(c), nil
	}
}

type replayDoc struct {
	Property  string          `json:"property"`
	Signature string          `json:"signature"`
	Detail    string          `json:"detail"`
	Kind      string          `json:"kind"`
	Expect    string          `json:"expect,omitempty"` // "pass" (default for regress) or "violation"
	Case      json.RawMessage `json:"case"`
}

// TestReplay executes VERIF_REPLAY (a file, or a directory of *.json; only
// files of property VERIF_PROP when set). Prints one line per file.
func TestReplay(t *testing.T) {
	path := os.Getenv("VERIF_REPLAY")
	if path == "" {
		t.Skip("VERIF_REPLAY not set")
	}
	var files []string
	if fi, err := os.Stat(path); err == nil && fi.IsDir() {
		m, _ := filepath.Glob(filepath.Join(path, "*.json"))
		files = m
	} else if err == nil {
		files = []string{path}
	}
	sort.Strings(files)
	want := os.Getenv("VERIF_PROP")
	for _, f := range files {
		b, err := os.ReadFile(f)
		if err != nil {
			t.Errorf("REPLAY-ERROR %s: %v", f, err)
			continue
		}
		var d replayDoc
		if err := json.Unmarshal(b, &d); err != nil {
			t.Errorf("REPLAY-ERROR %s: %v", f, err)
			continue
		}
		if want != "" && !strings.EqualFold(d.Property, want) {
			continue
		}
		rp, ok := replayers[d.Kind]
		if !ok {
			t.Errorf("REPLAY-ERROR %s: unknown kind %q", f, d.Kind)
			continue
		}
		v, err := rp(d.Case)
		if err != nil {
			t.Errorf("REPLAY-ERROR %s: %v", f, err)
			continue
		}
		if v == nil {
			t.Logf("REPLAY-PASS file=%s property=%s", f, d.Property)
			continue
		}
		if isKnown(v.Prop, v.Sig) {
			t.Logf("REPLAY-KNOWN file=%s property=%s signature=%s", f, v.Prop, v.Sig)
			continue
		}
		t.Errorf("REPLAY-VIOLATION file=%s property=%s signature=%s detail=%s", f, v.Prop, v.Sig, v.Detail)
	}
}
