package props

import (
	"crypto/sha512"
	"encoding/base64"
	"strings"
	"testing"

	"github.com/volatiletech/authboss/v3"
	"pgregory.net/rapid"

	"verif/harness"
)

// ---- C07: remember-me cookies are single-use, bound to one user, and grant only half-auth

type monC07 struct {
	live map[string]string // decoded cookie bytes -> pid it was issued to
	seen map[string]int    // pid -> number of KB cookies already folded in
	// askedO2[b]: did the browser's LATEST OAuth2 start request ask to be remembered?
	askedO2 map[int]bool
	// how each browser's session got its user ("half" after a cookie re-authentication, "full"
	// only after a completed login as that user): C13's model, the session's own mark is not trusted
	lvl monC13
}

func (c *monC07) Init(m *Machine) {
	c.live, c.seen, c.askedO2 = map[string]string{}, map[string]int{}, map[int]bool{}
}

// halfMarkKept: a session that owes its user to a remember cookie keeps the half-auth mark until a
// login as that user completes (or the session ends).
func (c *monC07) halfMarkKept(m *Machine, s *Step) *Violation {
	c.lvl.trackLevel(m, s)
	if s.Resp == nil {
		return nil
	}
	b := s.Op.B % len(m.W.Jars)
	r := s.Resp
	uid := r.UID()
	if uid != "" && len(c.lvl.level) > b && c.lvl.level[b] == "half" && c.lvl.who[b] == uid && r.SessAfter[authboss.SessionHalfAuthKey] != "true" {
		return violation("C07", "half-auth-mark-lost:"+s.Op.K, "%s request: the session of %q goes back to a remember cookie and no login as that user completed since, yet the half-auth mark is gone (session %v)", s.Op.K, uid, r.SessAfter)
	}
	return nil
}

func cookieKey(c string) (string, bool) {
	raw, err := base64.URLEncoding.DecodeString(c)
	if err != nil {
		return "", false
	}
	return string(raw), true
}

func storedCookieHash(key string) string {
	sum := sha512.Sum512([]byte(key))
	return base64.StdEncoding.EncodeToString(sum[:])
}

func pidClass(pid string) string {
	switch {
	case strings.HasPrefix(pid, "oauth2;;"):
		return "oauth2-pid"
	case strings.Contains(pid, ";"):
		return "pid-has-separator"
	case !isASCII(pid):
		return "pid-non-ascii"
	}
	return "plain-pid"
}

var passiveOps = map[string]bool{"visit": true, "get": true, "set": true}

func (c *monC07) After(m *Machine, s *Step) *Violation {
	if v := c.halfMarkKept(m, s); v != nil {
		return v
	}
	op := s.Op
	if op.K == "updpw" {
		if ka := m.KB.acct(op.A % max(1, len(m.KB.Accts))); ka != nil {
			for k, p := range c.live {
				if p == ka.PID {
					delete(c.live, k)
				}
			}
			m.flag("revoked-by-password-change")
		}
		return nil
	}
	if s.Resp == nil {
		return nil
	}
	r := s.Resp
	b := op.B % len(m.W.Jars)
	_ = b
	before, after := r.UIDBefore(), r.UID()
	oldC, hadC := r.CookBefore["rm"]
	newC, hasC := r.CookAfter["rm"]

	// password recovery revokes every cookie of the account
	if op.K == "recend" {
		for pid, pu := range s.Pre.Users {
			if pu.Password != s.Post.Users[pid].Password {
				for k, p := range c.live {
					if p == pid {
						delete(c.live, k)
					}
				}
				m.flag("revoked-by-password-change")
			}
		}
	}

	rotatedFor := ""
	if before == "" && hadC {
		key, decodable := cookieKey(oldC)
		owner, isLive := "", false
		if decodable {
			owner, isLive = c.live[key]
		}
		if isLive && r.Fired != "" {
			// the rotation met a storage failure: nothing has to succeed, but the request must not come out
			// of it MORE authenticated than a completed rotation would have made it
			m.flag("rotation-under-fault:" + r.Fired)
			if r.Rec.ProbeRan && (r.Rec.ProbeName == "full" || r.Rec.ProbeName == "full2fa" || (r.Rec.ProbeUID != "" && r.Rec.ProbeFull)) {
				return violation("C07", "failed-rotation-fully-authed:"+r.Fired, "the rotation of %q's remember cookie failed at %s, yet the request was served as %q, fully authenticated=%v, behind probe %q", owner, r.Fired, r.Rec.ProbeUID, r.Rec.ProbeFull, r.Rec.ProbeName)
			}
			if after != "" && r.SessAfter[authboss.SessionHalfAuthKey] != "true" {
				return violation("C07", "failed-rotation-session-not-half:"+r.Fired, "the rotation of %q's remember cookie failed at %s, yet the session names %q without the half-auth mark", owner, r.Fired, after)
			}
			// the cookie stays live exactly if its token is still in storage
			still := false
			for _, t := range s.Post.Tokens[owner] {
				still = still || t == storedCookieHash(key)
			}
			if !still {
				delete(c.live, key)
			}
			if after == owner {
				rotatedFor = owner
			}
		} else if isLive {
			cls := pidClass(owner)
			// the middleware must have consumed it: single use
			delete(c.live, key)
			rotatedFor = owner
			h := storedCookieHash(key)
			for _, t := range s.Post.Tokens[owner] {
				if t == h {
					return violation("C07", "used-cookie-still-live-in-storage:"+cls, "cookie of %q was presented but its token is still in storage afterwards", owner)
				}
			}
			if passiveOps[op.K] {
				if after != owner {
					return violation("C07", "live-cookie-refused:"+cls, "browser presented the live remember cookie issued to %q (%s) but the session user afterwards is %q (cookie after: %v)", owner, cls, after, hasC)
				}
				if r.SessAfter[authboss.SessionHalfAuthKey] != "true" {
					return violation("C07", "reauth-not-half:"+cls, "re-authentication of %q by cookie did not mark the session half-authenticated", owner)
				}
				if !hasC || newC == oldC {
					return violation("C07", "cookie-not-rotated:"+cls, "re-authentication of %q did not rotate the cookie (has=%v same=%v)", owner, hasC, newC == oldC)
				}
				if r.Rec.ProbeRan && r.Rec.ProbeName == "full" {
					return violation("C07", "half-auth-passed-full-requirement", "a session re-authenticated by cookie was admitted to a route requiring full authentication")
				}
				m.flag("reauth:" + cls)
			}
		} else {
			if passiveOps[op.K] && r.Fired != "" {
				// the token lookup itself may have failed: the cookie can neither be honoured nor be told dead
				if after != "" {
					return violation("C07", "dead-cookie-authenticated:"+op.Src+"/"+op.Mut, "cookie %q (unknown/used/revoked/malformed) authenticated %q in a request whose %s call failed", oldC, after, r.Fired)
				}
			} else if passiveOps[op.K] {
				if after != "" {
					return violation("C07", "dead-cookie-authenticated:"+op.Src+"/"+op.Mut, "cookie %q (unknown/used/revoked/malformed) authenticated %q", oldC, after)
				}
				if hasC {
					return violation("C07", "dead-cookie-not-deleted", "unusable cookie was left on the client (before %q after %q)", oldC, newC)
				}
				m.flag("dead-cookie-rejected")
			} else if after != "" && after != before {
				// login-type request: the new identity must come from the request's own credential (C01), never from the dead cookie;
				// nothing to assert here beyond the cookie not being resurrected
			}
		}
	}

	// new cookie values: whom do they belong to, and were they asked for?
	if hasC && newC != oldC {
		owner := ""
		for _, a := range m.KB.Accts {
			for _, kc := range a.Cookies[c.seen[a.PID]:] {
				if kc == newC {
					owner = a.PID
				}
			}
		}
		for _, a := range m.KB.Accts {
			c.seen[a.PID] = len(a.Cookies)
		}
		asked := false
		switch op.K {
		case "login", "otplogin":
			asked = op.F && after == s.Pid
		case "o2cb":
			asked = c.askedO2[b] && after != ""
		}
		if !asked && rotatedFor == "" {
			return violation("C07", "cookie-issued-unasked:"+op.K, "%s request issued a remember cookie although the user did not ask to be remembered (rm flag %v)", op.K, op.F)
		}
		if rotatedFor != "" && !asked {
			owner = rotatedFor
		}
		if owner == "" {
			owner = after
		}
		if key, ok := cookieKey(newC); ok {
			c.live[key] = owner
			// storage must hold exactly this token for the owner
			h := storedCookieHash(key)
			found := false
			for _, t := range s.Post.Tokens[owner] {
				if t == h {
					found = true
				}
			}
			if !found {
				return violation("C07", "issued-cookie-not-in-storage:"+pidClass(owner), "cookie issued to %q has no matching token stored for that user", owner)
			}
		}
		if asked {
			m.flag("issued:" + pidClass(owner))
		}
	}
	if op.K == "o2start" && r.Wrote && r.Rec.HandlerErr == nil {
		c.askedO2[b] = op.F
	}
	if op.K == "newsess" {
		delete(c.askedO2, b)
	}
	if op.K == "logout" && (op.S == "" || op.S == m.W.AB.Config.Modules.LogoutMethod) && hasC {
		return violation("C07", "logout-kept-cookie", "logout left the remember cookie on the client")
	}
	loginReported := r.Rec.HandlerErr == nil && (strings.HasPrefix(r.Location, "/ok/login") || (op.S2 != "" && r.Location == op.S2))
	if (op.K == "login" || op.K == "otplogin") && after == s.Pid && after != "" && r.SessAfter[authboss.SessionHalfAuthKey] != "" && credOK(m, s) && loginReported {
		return violation("C07", "full-login-kept-halfauth", "a full login of %q left the half-auth mark in the session", after)
	}
	return nil
}

func credOK(m *Machine, s *Step) bool {
	ok, _ := credTruth(m, s, s.Pid)
	return ok
}

func (c *monC07) End(m *Machine) *Violation { return nil }

var kindsC07 = []wk{
	{"login", 18}, {"newsess", 16}, {"visit", 22}, {"steal", 8}, {"setcookie", 10}, {"logout", 5}, {"updpw", 3},
	{"snip:remember", 12}, {"snip:recover", 4}, {"snip:oauth", 8}, {"snip:o2stale", 5}, {"o2start", 2}, {"o2cb", 3}, {"get", 2}, {"dropcookie", 1}, {"snip:rotatefault", 6},
}

var hostilePIDs = []string{"a;b@x.io", "semi;;colon@x.io", ";lead@x.io", "trail@x.io;", "oauth2;x@x.io", "plain@x.io", "unié@x.io", "x@y.io",
	// identifiers are arbitrary bytes to the library: control characters (accounts imported or created outside the form rules)
	"tab\tuser@x.io", "nul\x00byte@x.io", "line\nfeed@x.io", "del\x7f;semi@x.io"}

var profC07 = profile{
	must: []string{"auth", "remember", "logout"}, may: []string{"recover", "oauth2", "otp", "lock", "confirm"},
	kinds: kindsC07, minOps: 14, maxOps: 36, accts: [2]int{2, 4}, browsers: [2]int{2, 3}, middlewares: []string{"remember"},
	tweak: func(t *rapid.T, c *harness.Config) {
		c.Setups = nil
		c.Username = false
		c.RecoverLogin = chance(t, "reclogin7", 50)
		c.LockAfter = 100000 // lock is loaded for its vetoes and hooks; only accounts seeded as locked are locked
		pids := perm(t, "pidperm", hostilePIDs)
		for i := range c.Accounts {
			a := &c.Accounts[i]
			// the last account may be one whose logins are vetoed (locked / unconfirmed): vetoes answer the
			// request themselves, which is its own path through every login handler
			if i == 0 || i < len(c.Accounts)-1 {
				a.Locked, a.Unconfirmed = false, false
			}
			a.TOTP, a.Phone, a.Recovery = false, "", 0
			a.PID = pids[i%len(pids)]
			a.Email = "mail" + string(rune('a'+i)) + "@x.io"
			if !c.JSON && chance(t, "binarypid", 10) {
				a.PID = "bin\xff\xfe" + string(rune('a'+i)) + "@x.io"
			}
			if chance(t, "longpid", 5) {
				a.PID = strings.Repeat("L", 300) + string(rune('a'+i)) + "@x.io"
			}
		}
	},
}

func TestC07(t *testing.T) {
	st("C07").Rule = "remember machine: accounts whose PIDs contain ';', ';;', the library's own OAuth2 PID shape, non-ASCII and non-UTF-8 bytes, long PIDs; ops: login with rm absent/false/true, OAuth2 login with rm, new session, visits, cookie theft between browsers, replay of old cookies, arbitrary cookie bytes, logout, password reset; " +
		"oracle: model set of live (pid, cookie) pairs with rotate-once semantics, checked against session, client cookie and the stored token table; non-trivial = a re-authentication for a PID containing ';' or a replay/theft/dead-cookie rejection; distinct by FNV of the abstract trace"
	runWorldProp(t, "C07", profC07, func() Monitor { return &monC07{} }, func(m *Machine) bool {
		return m.Flags["reauth:pid-has-separator"] || m.Flags["reauth:oauth2-pid"] || m.Flags["dead-cookie-rejected"]
	})
}

// FuzzC07 presents arbitrary cookie strings to one world that holds a live
// cookie for a user whose PID contains the separator.
func FuzzC07(f *testing.F) {
	cfg := harness.Config{Seed: 99, Modules: []string{"auth", "remember", "logout"}, Mount: "/auth", Browsers: 1, Middleware: "remember",
		Accounts: []harness.AccountSpec{{PID: "a;b@x.io", Password: "Passw0rd!A"}, {PID: "plain@x.io", Password: "Passw0rd!B"}}}
	w, err := harness.NewWorld(cfg)
	if err != nil {
		f.Fatal(err)
	}
	r := w.Do(harness.Req{Method: "POST", Path: w.Path("/login"), Form: map[string]string{"email": "a;b@x.io", "password": "Passw0rd!A", "rm": "true"}})
	live := r.CookAfter["rm"]
	if live == "" {
		f.Fatal("no cookie issued")
	}
	liveKey, _ := cookieKey(live)
	base := w.Store.Snapshot()
	f.Add(live)
	f.Add(live + "=")
	f.Add(strings.TrimRight(live, "="))
	f.Add(base64.URLEncoding.EncodeToString([]byte("a;b@x.io;")))
	f.Add(base64.URLEncoding.EncodeToString([]byte("plain@x.io;" + strings.Repeat("x", 32))))
	f.Add("")
	f.Add(";;;")
	f.Fuzz(func(t *testing.T, cookie string) {
		// reset: fresh session, the live token back in storage
		w.Jars[0].ClearSession()
		for _, u := range base.Users {
			uu := u
			w.Store.Seed(&uu)
		}
		for _, tok := range w.Store.Tokens("a;b@x.io") {
			_ = w.Store.UseRememberToken(nil, "a;b@x.io", tok)
		}
		_ = w.Store.AddRememberToken(nil, "a;b@x.io", base.Tokens["a;b@x.io"][0])
		w.Jars[0].SetCookie("rm", cookie)
		resp := w.Do(harness.Req{Method: "GET", Path: "/p/none"})
		key, ok := cookieKey(cookie)
		var v *Violation
		if ok && key == liveKey {
			if resp.UID() != "a;b@x.io" {
				v = violation("C07", "live-cookie-refused:fuzz", "spelling %q of the live cookie did not authenticate its user (uid %q)", cookie, resp.UID())
			}
		} else if resp.UID() != "" {
			v = violation("C07", "dead-cookie-authenticated:fuzz", "cookie %q authenticated %q", cookie, resp.UID())
		} else if _, still := resp.CookAfter["rm"]; still {
			v = violation("C07", "dead-cookie-not-deleted", "unusable cookie %q was left on the client", cookie)
		}
		if v != nil && !isKnown(v.Prop, v.Sig) {
			saveFailure(v, "c07fuzz", cookie)
			t.Fatalf("VIOLATION %s", v.Error())
		}
	})
}

func init() {
	replayers["world:C07"] = worldReplayer(func() Monitor { return &monC07{} })
}

var _ = harness.AppKeys
