package props

import (
	"fmt"
	"testing"

	"pgregory.net/rapid"

	"verif/harness"
)

// ---- C02: with a second factor enabled, password knowledge alone never yields a session

type smsSent struct {
	code, number string
	consumed     bool
	alt          *smsSent // previous record that may still be current (sending request hit a backend fault)
}

// find returns the first unconsumed record of the chain (the latest code and,
// behind it, the ones a faulted sending request may have left current) that
// matches code and number.
func (p *smsSent) find(code, number string) *smsSent {
	for ; p != nil; p = p.alt {
		if !p.consumed && p.code == code && p.number == number {
			return p
		}
	}
	return nil
}

type monC02 struct {
	last     []*smsSent      // per browser: latest code sent on behalf of that browser's session
	spentRec map[string]bool // recovery codes the monitor saw complete a login (storage is not trusted to have consumed them)
	// codes must not repeat across phones: a code "obtained for another phone" that equals the victim's completes the victim's login
	allSMS       []harness.SMS
	collisions   int // pairs of equal codes texted to different numbers in this history (chance: 1e-6 per pair)
	foreignEqual int // logins completed with a code that had also been texted to another number
}

func (c *monC02) Init(m *Machine) {
	c.last = make([]*smsSent, len(m.W.Jars))
	c.spentRec = map[string]bool{}
}

// unusedRecovery: stored hashes verify the code AND the monitor has not seen it used before.
func (c *monC02) unusedRecovery(who string, pre harness.User, code string) bool {
	k := who + "|" + code
	if c.spentRec[k] || !recoveryInList(pre.RecoveryCodes, code) {
		return false
	}
	c.spentRec[k] = true
	return true
}

// factorEnabled: which second factors are in force for the stored user.
func factorEnabled(m *Machine, u harness.User) (totpOn, smsOn bool) {
	return u.TOTPSecretKey != "" && m.C.Cfg.HasSetup("totp"), u.SMSPhone != "" && m.C.Cfg.HasSetup("sms")
}

func (c *monC02) After(m *Machine, s *Step) *Violation {
	if s.Resp == nil {
		return nil
	}
	op, r := s.Op, s.Resp
	b := op.B % len(m.W.Jars)
	prevSMS := c.last[b]
	for _, sm := range r.SMS {
		for _, old := range c.allSMS {
			if old.Code == sm.Code && old.Number != sm.Number && sm.Code != "" {
				c.collisions++
				m.flag("sms-code-repeats-across-phones")
			}
		}
		c.allSMS = append(c.allSMS, sm)
	}
	if n := len(r.SMS); n > 0 {
		c.last[b] = &smsSent{code: r.SMS[n-1].Code, number: r.SMS[n-1].Number}
		if r.Fired != "" {
			// a backend call of the sending request failed: the response may not have
			// stored the new code in the session, so the previous one can still be current
			c.last[b].alt = prevSMS
		}
	}
	before, after := r.UIDBefore(), r.UID()
	if after == "" || after == before {
		if (op.K == "totpvalidate" || op.K == "smsvalidate") && r.SessBefore["totp_pending"]+r.SessBefore["sms_pending"] != "" && op.SA != op.A {
			m.flag("foreign-code-while-pending")
		}
		return nil
	}
	pre, has := s.Pre.Users[after]
	if !has {
		return nil
	}
	if m.rotationOwner(s) == after {
		return nil // re-authenticated by its remember cookie in this request: outside this monitor (C07)
	}
	totpOn, smsOn := factorEnabled(m, pre)
	if !totpOn && !smsOn {
		return nil
	}
	switch op.K {
	case "set", "steal", "setcookie", "dropcookie", "o2cb":
		return nil // harness pokes and the OAuth2 provider's own login: not password knowledge
	default:
		// closed world: only the two validate steps may turn a 2FA account's login into a session
		return violation("C02", "first-factor-alone:"+op.K, "%s request logged in %q although it has a second factor enabled (totp=%v sms=%v)", op.K, after, totpOn, smsOn)
	case "totpvalidate":
		m.flag("2fa-completed:totp")
		if op.F {
			if c.unusedRecovery(after, pre, s.Secret) {
				return nil
			}
			return violation("C02", "completed-with-foreign-code:totp:recovery:"+op.Src, "totp validate logged in %q with recovery code %q which is not one of its unused codes", after, s.Secret)
		}
		a, z := totpValidAt(s.Secret, pre.TOTPSecretKey, r.T0, r.T1)
		if a || z {
			return nil
		}
		return violation("C02", "completed-with-foreign-code:totp:"+op.Src, "totp validate logged in %q with code %q (source %s of acct %d) which is not valid for its own secret", after, s.Secret, op.Src, op.SA)
	case "smsvalidate":
		m.flag("2fa-completed:sms")
		if op.F {
			if c.unusedRecovery(after, pre, s.Secret) {
				return nil
			}
			return violation("C02", "completed-with-foreign-code:sms:recovery:"+op.Src, "sms validate logged in %q with recovery code %q which is not one of its unused codes", after, s.Secret)
		}
		for p := prevSMS; p != nil; p = p.alt {
			if !p.consumed && p.code == s.Secret && p.number == pre.SMSPhone {
				p.consumed = true
				for _, other := range c.allSMS {
					if other.Code == s.Secret && other.Number != pre.SMSPhone {
						c.foreignEqual++
					}
				}
				if c.foreignEqual >= 1 && c.collisions >= 2 {
					// one coincidence happens once in a million pairs; a login completed with a code that another phone
					// received too, in a history where codes repeat across phones again and again, is no coincidence
					return violation("C02", "sms-codes-repeat-across-phones", "sms validate logged in %q with code %q, which had also been texted to another number; %d pairs of equal codes went to different phones in this history", after, s.Secret, c.collisions)
				}
				return nil
			}
		}
		got := "none"
		if prevSMS != nil {
			got = fmt.Sprintf("code %q sent to %q consumed=%v", prevSMS.code, prevSMS.number, prevSMS.consumed)
		}
		return violation("C02", "completed-with-foreign-code:sms:code", "sms validate logged in %q (registered number %q) with code %q; the latest code sent for this browser: %s", after, pre.SMSPhone, s.Secret, got)
	}
}

func (c *monC02) End(m *Machine) *Violation { return nil }

var kindsC02 = []wk{
	{"login", 24}, {"otplogin", 5}, {"recstart", 3}, {"recend", 4}, {"totpvalidate", 14}, {"smsvalidate", 16}, {"smsresend", 8},
	{"advance", 10}, {"newsess", 3}, {"logout", 2}, {"visit", 3}, {"smssetup", 2}, {"smsconfirm", 1}, {"totpsetup", 1}, {"get", 1},
	{"snip:2fa", 10}, {"snip:setupcarry", 5}, {"snip:rec2fa", 5}, {"snip:numberswap", 4}, {"setphone", 2}, {"snip:recover", 3}, {"snip:otp", 1}, {"lock", 1}, {"unlock", 1}, {"register", 4}, {"snip:switch2fa", 6},
}

var profC02 = profile{
	must: []string{"auth"}, may: []string{"lock", "logout", "otp", "recover", "remember", "confirm", "register"},
	setups: []string{"totp", "sms", "recovery"}, kinds: kindsC02, minOps: 14, maxOps: 32,
	accts: [2]int{3, 4}, browsers: [2]int{1, 2}, middlewares: []string{"", "", "remember"},
	faultPct:  6, // both C02 rules are safety rules: they hold whichever backend call fails
	cancelPct: 5,
	tweak: func(t *rapid.T, c *harness.Config) {
		if !c.HasSetup("totp") && !c.HasSetup("sms") {
			c.Setups = append(c.Setups, pick(t, "force2fa", "totp", "sms"))
		}
		c.LockAfter = rapid.IntRange(3, 6).Draw(t, "lockafter2")
		c.EmailAuth = false
		if c.UpstreamLookup == 0 && chance(t, "datainjector", 25) {
			// the sample application's data injector: every request has its user loaded into the context up front
			c.UpstreamLookup = 2
		}
		// make sure at least two accounts have a factor of a module that is set up
		n := 0
		for i := range c.Accounts {
			a := &c.Accounts[i]
			a.Locked, a.Unconfirmed = false, false
			if c.HasSetup("totp") && !c.HasSetup("sms") {
				a.Phone = ""
			}
			if i < 3 && n < 2 || chance(t, "more2fa", 40) {
				switch {
				case c.HasSetup("totp") && c.HasSetup("sms"):
					k := pick(t, "factor", "totp", "sms", "sms", "both")
					a.TOTP = k != "sms"
					if k != "totp" {
						a.Phone = fmt.Sprintf("+1555000%d", i)
					} else {
						a.Phone = ""
					}
				case c.HasSetup("totp"):
					a.TOTP = true
				default:
					a.Phone = fmt.Sprintf("+1555000%d", i)
				}
				if a.Recovery == 0 {
					a.Recovery = 2
				}
				n++
			}
		}
	},
}

func TestC02(t *testing.T) {
	st("C02").Rule = "world machine with >=2 accounts holding TOTP/SMS factors, adversary-style histories (logins, code requests, validations, time gaps around the 10 s resend limit); " +
		"non-trivial = a validate request presenting a code obtained for a different account/number while a 2FA login is pending, or a completed 2FA login; distinct by FNV of the abstract trace"
	runWorldProp(t, "C02", profC02, func() Monitor { return &monC02{} }, func(m *Machine) bool {
		return m.Flags["foreign-code-while-pending"] || m.Flags["2fa-completed:sms"] || m.Flags["2fa-completed:totp"]
	})
}

func init() {
	replayers["world:C02"] = worldReplayer(func() Monitor { return &monC02{} })
}
