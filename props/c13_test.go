package props

import (
	"strings"
	"testing"

	"github.com/volatiletech/authboss/v3"
	"pgregory.net/rapid"

	"verif/harness"
)

// ---- C13: only the fully authenticated owner, proving the factor, can change 2FA settings

type monC13 struct {
	sms    []*smsSent // latest code sent for each browser
	issued []string   // e-mail verify token mailed for this browser's session
	authed []bool     // model: this browser's session presented its mailed token
	// the account the token was mailed to / the authorisation was earned by: it authorises that
	// account's enrolment only, whoever the session names later
	issuedFor, authedAs []string
	spentRec            map[string]bool // recovery codes already used once (whatever storage still says)
	// model of how each browser's session got its user: "full" only after a completed login
	// as that user (all steps), "half" after a remember re-authentication; the session's
	// half-auth key is not trusted to say so
	level []string
	who   []string
}

// trackLevel updates the authentication-level model from what the request proved.
func (c *monC13) trackLevel(m *Machine, s *Step) {
	op := s.Op
	b := op.B % len(m.W.Jars)
	if len(c.level) == 0 {
		c.level, c.who = make([]string, len(m.W.Jars)), make([]string, len(m.W.Jars))
	}
	if op.K == "newsess" {
		c.level[b], c.who[b] = "", ""
		return
	}
	if s.Resp == nil {
		return
	}
	r := s.Resp
	uid := r.UID()
	if uid == "" {
		c.level[b], c.who[b] = "", ""
		return
	}
	pendingSet := (r.SessAfter["totp_pending"] != "" && r.SessAfter["totp_pending"] != r.SessBefore["totp_pending"]) ||
		(r.SessAfter["sms_pending"] != "" && r.SessAfter["sms_pending"] != r.SessBefore["sms_pending"])
	okRedirect := r.Rec.HandlerErr == nil && r.Location != "" && !strings.HasPrefix(r.Location, "/notok") && !strings.Contains(r.Location, "/2fa/")
	switch op.K {
	case "login", "otplogin", "recend", "o2cb", "register":
		if ok, _ := credTruth(m, s, uid); ok && !pendingSet && okRedirect && (op.K == "o2cb" || op.K == "recend" || uid == s.Pid) {
			c.level[b], c.who[b] = "full", uid
			return
		}
	case "totpvalidate", "smsvalidate":
		if okRedirect && r.SessAfter[authboss.Session2FA] != "" && (r.UIDBefore() == "" || r.UIDBefore() == uid) && r.SessBefore[authboss.Session2FA] == "" || (okRedirect && r.UIDBefore() == "" && uid != "") {
			c.level[b], c.who[b] = "full", uid
			return
		}
	}
	if r.UIDBefore() == "" && m.rotationOwner(s) == uid {
		c.level[b], c.who[b] = "half", uid
		return
	}
	if c.who[b] != uid {
		// identity appeared some other way: not a completed login the model saw
		c.level[b], c.who[b] = "half", uid
	}
}

func (c *monC13) unusedRecovery(who string, pre harness.User, code string) bool {
	if c.spentRec == nil {
		c.spentRec = map[string]bool{}
	}
	k := who + "|" + code
	if c.spentRec[k] || !recoveryInList(pre.RecoveryCodes, code) {
		return false
	}
	c.spentRec[k] = true
	return true
}

// spend: a completed enrolment uses up the session's e-mail authorisation. The
// mark lives in the client's session, so it can only go with a response that was
// written: a request cut short by a backend fault under the silent error handler
// writes nothing and leaves the session as it was.
func (c *monC13) spend(b int, r *harness.Resp) {
	if r.Fired == "" || r.Wrote {
		c.authed[b] = false
	}
}

// useCode: a confirmed enrolment takes the texted code out of the session - with the
// response. If a backend fault cut the request short and nothing was written (silent error
// handler) the session still holds it and it can be presented again.
func (c *monC13) useCode(hit *smsSent, r *harness.Resp) {
	if r.Fired == "" || r.Wrote {
		hit.consumed = true
	}
}

func (c *monC13) Init(m *Machine) {
	n := len(m.W.Jars)
	c.sms, c.issued, c.authed = make([]*smsSent, n), make([]string, n), make([]bool, n)
	c.issuedFor, c.authedAs = make([]string, n), make([]string, n)
}

var enrolOps = map[string]bool{"totpsetup": true, "totpconfirm": true, "smssetup": true, "smsconfirm": true}

func (c *monC13) After(m *Machine, s *Step) *Violation {
	defer c.trackLevel(m, s)
	op := s.Op
	b := op.B % len(m.W.Jars)
	if len(c.level) == 0 {
		c.level, c.who = make([]string, len(m.W.Jars)), make([]string, len(m.W.Jars))
	}
	if op.K == "newsess" {
		c.issued[b], c.authed[b] = "", false
		return nil
	}
	if s.Resp == nil {
		return nil
	}
	r := s.Resp
	cfg := m.C.Cfg
	if ch := m.W.Mail.Changed(); len(ch) > 0 {
		return violation("C13", "mail-changed-after-handoff", "a mail already handed to the mailer was altered by a later request (a queueing mailer delivers the token to the wrong account): %s", ch[0])
	}
	prevSMS := c.sms[b]
	if n := len(r.SMS); n > 0 {
		c.sms[b] = &smsSent{code: r.SMS[n-1].Code, number: r.SMS[n-1].Number}
		if r.Fired != "" {
			c.sms[b].alt = prevSMS // the faulted request may not have stored the new code in the session
		}
	}
	if (op.K == "totpvalidate" || op.K == "smsvalidate") && op.F && s.Secret != "" && r.SessAfter[authboss.Session2FA] != "" && r.SessBefore[authboss.Session2FA] == "" {
		// a recovery code that completed a login is used up from now on, whatever storage says
		if who := r.UID(); who != "" && recoveryInList(s.Pre.Users[who].RecoveryCodes, s.Secret) {
			if c.spentRec == nil {
				c.spentRec = map[string]bool{}
			}
			c.spentRec[who+"|"+s.Secret] = true
			m.flag("recovery-code-logged-in")
		}
	}
	uid := r.SessBefore[authboss.SessionKey]
	_, half := r.SessBefore[authboss.SessionHalfAuthKey]
	if uid != "" && !(c.level[b] == "full" && c.who[b] == uid) {
		half = true // the model never saw this session complete a login as uid
	}
	full := uid != "" && !half
	sessKind := "anonymous"
	switch {
	case full:
		sessKind = "full"
	case uid != "":
		sessKind = "half"
	case r.SessBefore["totp_pending"]+r.SessBefore["sms_pending"] != "":
		sessKind = "pending"
	}

	// ---- e-mail authorisation
	if cfg.EmailAuth {
		if op.K == "evstart" {
			for _, ml := range r.Mails {
				if strings.Contains(ml.URL, "/email/verify/end") && ml.Token != "" {
					c.issued[b], c.issuedFor[b] = ml.Token, uid
					if u, ok := s.Pre.Users[uid]; ok && (len(ml.To) != 1 || ml.To[0] != u.Email) {
						return violation("C13", "verify-mail-misaddressed", "2FA e-mail authorisation for %q was mailed to %v", uid, ml.To)
					}
				}
			}
		}
		newlyAuthed := r.SessAfter[authboss.Session2FAAuthed] == "true" && r.SessBefore[authboss.Session2FAAuthed] != "true"
		if op.K == "evend" {
			legit := c.issued[b] != "" && s.Secret == c.issued[b] && full && c.issuedFor[b] == uid
			if legit && r.SessAfter[authboss.Session2FAAuthed] == "true" {
				// (the mark may already have been there, left by another account's verification)
				c.authed[b], c.issued[b], c.authedAs[b] = true, "", uid
				m.flag("email-authorised")
			}
			if !legit {
				m.flag("evend-without-valid-token:" + op.Src)
			}
			if newlyAuthed && !legit {
				return violation("C13", "email-auth-granted-without-token:"+op.Src+":issued="+boolStr(c.issued[b] != ""), "session of %q (%s) obtained 2FA e-mail authorisation by presenting %q; the token mailed for this session: %q", uid, sessKind, s.Secret, c.issued[b])
			}
		} else if newlyAuthed {
			return violation("C13", "email-auth-granted-by:"+op.K, "a %s request set the 2FA e-mail authorisation mark", op.K)
		}
		if (enrolOps[op.K] || (op.K == "get" && (strings.Contains(op.S, "/setup") || strings.Contains(op.S, "/confirm") || strings.Contains(op.S, "/qr")))) && r.Rec.HandlerRan && !c.authed[b] {
			return violation("C13", "enrolment-route-without-email-auth:"+op.K, "with e-mail authorisation required, the %s handler ran in a session that never presented its mailed token", op.K)
		} else if (enrolOps[op.K] || (op.K == "get" && (strings.Contains(op.S, "/setup") || strings.Contains(op.S, "/confirm") || strings.Contains(op.S, "/qr")))) && r.Rec.HandlerRan && c.authedAs[b] != uid {
			return violation("C13", "enrolment-route-with-another-accounts-email-auth:"+op.K, "with e-mail authorisation required, the %s handler ran for %q in a session whose authorisation was earned with the token mailed to %q", op.K, uid, c.authedAs[b])
		}
		if _, still := r.SessAfter[authboss.Session2FAAuthed]; !still {
			c.authed[b] = false
		}
	}
	if op.K == "logout" {
		if _, ok := r.SessAfter[authboss.Session2FAAuthToken]; !ok {
			c.issued[b] = ""
		}
	}

	// ---- every change of a stored 2FA setting must be justified
	for pid, pre := range s.Pre.Users {
		post, ok := s.Post.Users[pid]
		if !ok {
			continue
		}
		dT := pre.TOTPSecretKey != post.TOTPSecretKey
		dS := pre.SMSPhone != post.SMSPhone
		dR := pre.RecoveryCodes != post.RecoveryCodes
		if !dT && !dS && !dR {
			continue
		}
		owner := full && uid == pid
		cls := op.K + ":" + sessKind
		if !owner {
			// the one permitted exception: a pending/half/own validate consuming exactly one presented recovery code
			if dR && !dT && !dS && consumedOneRecovery(pre, post, s) && (op.K == "totpvalidate" || op.K == "smsvalidate") && (uid == pid || r.SessBefore["totp_pending"] == pid || r.SessBefore["sms_pending"] == pid || (uid == "" && m.rotationOwner(s) == pid)) {
				// (the last case: the remember middleware re-authenticated pid on the way into this request)
				continue
			}
			return violation("C13", "2fa-setting-changed-by-non-owner:"+cls, "%s request from a %s session (user %q) changed 2FA settings of %q (totp %v sms %v recovery %v)", op.K, sessKind, uid, pid, dT, dS, dR)
		}
		switch {
		case dT && post.TOTPSecretKey != "": // enabling / re-keying TOTP
			enrolling := r.SessBefore["totp_secret"]
			a, z := totpValidAt(s.Secret, enrolling, r.T0, r.T1)
			if op.K != "totpconfirm" || enrolling == "" || post.TOTPSecretKey != enrolling || !(a || z) {
				return violation("C13", "totp-enabled-without-proof:"+op.K+":"+op.Src, "TOTP of %q was set to %q by %s with code %q (enrolling secret %q, valid %v)", pid, post.TOTPSecretKey, op.K, s.Secret, enrolling, a || z)
			}
			m.flag("enabled:totp")
			c.spend(b, r)
		case dT: // disabling TOTP
			a, z := totpValidAt(s.Secret, pre.TOTPSecretKey, r.T0, r.T1)
			okCode := !op.F && (a || z)
			okRec := op.F && c.unusedRecovery(pid, pre, s.Secret)
			if op.K != "totpremove" || !(okCode || okRec) {
				return violation("C13", "totp-disabled-without-proof:"+op.K+":"+op.Src, "TOTP of %q was removed by %s with %q (recovery field %v)", pid, op.K, s.Secret, op.F)
			}
			m.flag("disabled:totp")
		}
		switch {
		case dS && post.SMSPhone != "": // enabling / changing the number
			enrolling := r.SessBefore["sms_number"]
			hit := prevSMS.find(s.Secret, enrolling)
			proof := hit != nil && s.Secret != ""
			if op.K != "smsconfirm" || enrolling == "" || post.SMSPhone != enrolling || !proof {
				return violation("C13", "sms-enabled-without-proof:"+op.K+":"+op.Src, "SMS number of %q was set to %q by %s with code %q; enrolling number %q; latest code for this browser %+v", pid, post.SMSPhone, op.K, s.Secret, enrolling, prevSMS)
			}
			c.useCode(hit, r)
			m.flag("enabled:sms")
			c.spend(b, r)
		case dS: // disabling SMS
			okCode := !op.F && prevSMS.find(s.Secret, pre.SMSPhone) != nil && s.Secret != ""
			okRec := op.F && c.unusedRecovery(pid, pre, s.Secret)
			if op.K != "smsremove" || !(okCode || okRec) {
				return violation("C13", "sms-disabled-without-proof:"+op.K+":"+op.Src, "SMS 2FA of %q (number %q) was removed by %s with %q (recovery field %v); latest code for this browser %+v", pid, pre.SMSPhone, op.K, s.Secret, op.F, prevSMS)
			}
			// the remove page leaves the code in the session; it still proves possession of the
			// number it was texted to (single use of SMS *login* codes is C12's subject)
			m.flag("disabled:sms")
		}
		if dR && !dT && !(dS && post.SMSPhone != "") {
			// re-enrolment of the very same number / secret still issues a fresh set of codes
			hit := prevSMS.find(s.Secret, r.SessBefore["sms_number"])
			sameSMS := op.K == "smsconfirm" && hit != nil && s.Secret != "" && post.SMSPhone == r.SessBefore["sms_number"]
			a, z := totpValidAt(s.Secret, r.SessBefore["totp_secret"], r.T0, r.T1)
			sameTOTP := op.K == "totpconfirm" && (a || z) && post.TOTPSecretKey == r.SessBefore["totp_secret"]
			switch {
			case sameSMS:
				c.useCode(hit, r)
				m.flag("enabled:sms")
				c.spend(b, r)
			case sameTOTP:
				m.flag("enabled:totp")
				c.spend(b, r)
			case op.K == "regen":
				m.flag("regenerated")
			case consumedOneRecovery(pre, post, s):
			default:
				return violation("C13", "recovery-codes-changed:"+op.K, "%s request changed the recovery codes of %q without enrolment, regeneration or use of one code", op.K, pid)
			}
		}
	}
	if (enrolOps[op.K] || op.K == "totpremove" || op.K == "smsremove" || op.K == "regen" || op.K == "evend") && sessKind != "full" {
		m.flag("attempt-from:" + sessKind)
	}
	return nil
}

func boolStr(b bool) string {
	if b {
		return "yes"
	}
	return "no"
}

// consumedOneRecovery: post list == pre list minus exactly the presented, valid code.
func consumedOneRecovery(pre, post harness.User, s *Step) bool {
	if !s.Op.F || s.Secret == "" {
		return false
	}
	a, b := splitCSV(pre.RecoveryCodes), splitCSV(post.RecoveryCodes)
	if len(b) != len(a)-1 {
		return false
	}
	removed := ""
	j := 0
	for _, h := range a {
		if j < len(b) && b[j] == h {
			j++
			continue
		}
		if removed != "" {
			return false
		}
		removed = h
	}
	return j == len(b) && removed != "" && recoveryInList(removed, s.Secret)
}

func (c *monC13) End(m *Machine) *Violation { return nil }

var kindsC13 = []wk{
	{"login", 14}, {"totpvalidate", 6}, {"smsvalidate", 6}, {"totpsetup", 8}, {"totpconfirm", 6}, {"totpremove", 10}, {"smssetup", 8},
	{"smsconfirm", 6}, {"smsremove", 10}, {"smsresend", 5}, {"regen", 1}, {"evstart", 8}, {"evend", 12}, {"newsess", 4}, {"logout", 3},
	{"get", 6}, {"advance", 4}, {"snip:remember", 4}, {"snip:2fa", 6}, {"snip:enrol-totp", 2}, {"snip:enrol-sms", 2}, {"snip:settings", 14}, {"snip:rememberedpoke", 8}, {"snip:rec2fa", 6}, {"snip:evcarry", 8}, {"snip:smsrekey", 8},
}

var profC13 = profile{
	must: []string{"auth", "logout"}, may: []string{"remember", "otp"},
	mustSetups: []string{"recovery"}, setups: []string{"totp", "sms"}, kinds: kindsC13, minOps: 14, maxOps: 34,
	accts: [2]int{2, 3}, browsers: [2]int{1, 2}, middlewares: []string{"", "remember"},
	// the enrolment routes and their e-mail gate must hold whichever backend call fails
	faultPct: 12, faultOps: []string{"totpsetup", "totpconfirm", "smssetup", "smsconfirm", "get"},
	tweak: func(t *rapid.T, c *harness.Config) {
		if !c.HasSetup("totp") && !c.HasSetup("sms") {
			c.Setups = append(c.Setups, pick(t, "force2fa", "totp", "sms"))
		}
		c.EmailAuth = chance(t, "emailauth13", 55)
		c.App2FAHook = chance(t, "app2fahook", 30)
		if len(c.Accounts) >= 2 && chance(t, "casetwins", 25) {
			// two different accounts whose identifiers differ only in case (identifiers are case-sensitive strings to the library)
			p0 := c.Accounts[0].PID
			c.Accounts[1].PID = strings.ToUpper(p0[:1]) + p0[1:]
			if c.Accounts[1].PID == p0 {
				c.Accounts[1].PID = strings.ToLower(p0[:1]) + p0[1:]
			}
			if c.Username {
				c.Accounts[1].Email = "twin@mail.io"
			} else {
				c.Accounts[1].Email = ""
			}
		}
		if c.Middleware == "remember" && chance(t, "nilstate13", 30) {
			c.NilEmptyState = true
		}
		c.Refusal = pick(t, "refusal13", 0, 1, 2)
		for i := range c.Accounts {
			a := &c.Accounts[i]
			a.Locked, a.Unconfirmed = false, false
			if !c.HasSetup("totp") {
				a.TOTP = false
			}
			if !c.HasSetup("sms") {
				a.Phone = ""
			}
			if a.TOTP || a.Phone != "" {
				a.Recovery = rapid.IntRange(1, 3).Draw(t, "rec13")
			}
		}
	},
}

func TestC13(t *testing.T) {
	st("C13").Rule = "2FA-settings machine: setup / confirm / remove / regenerate / e-mail-verify requests from anonymous, pending, half-authed and fully authed sessions of 2-3 accounts, with codes and tokens that are valid, valid for another secret/number, empty, absent or stale; e-mail authorisation on/off; both kinds; " +
		"oracle: every change of a stored TOTP secret, SMS number or recovery-code set of any account must be justified by a fully authed owner session proving the factor being enrolled/removed; e-mail authorisation is tracked per session from the mailbox; " +
		"non-trivial = a change attempt from a non-full session, or an e-mail-verify end request without the valid token; distinct by FNV of the abstract trace"
	runWorldProp(t, "C13", profC13, func() Monitor { return &monC13{} }, func(m *Machine) bool {
		for f := range m.Flags {
			if strings.HasPrefix(f, "attempt-from:") || strings.HasPrefix(f, "evend-without-valid-token") {
				return true
			}
		}
		return false
	})
}

func init() {
	replayers["world:C13"] = worldReplayer(func() Monitor { return &monC13{} })
}
