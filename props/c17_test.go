package props

import (
	"crypto/sha512"
	"encoding/base64"
	"reflect"
	"strings"
	"testing"

	"pgregory.net/rapid"

	"verif/harness"
)

// ---- C17: secrets are never stored or logged in recoverable form

type monC17 struct {
	logSeen                 int
	kinds                   map[string]bool
	rejectedTokenSubmission bool
	tokenOwner              map[string]string // mailed token -> the account it was first mailed for
}

func (c *monC17) Init(m *Machine) { c.kinds = map[string]bool{} }

var secretKinds = map[string]bool{"password": true, "password-typed": true, "otp": true, "otp-typed": true, "recovery": true,
	"remember-cookie": true, "remember-cookie-raw": true, "confirm-token": true, "recover-token": true, "2fa-verify-token": true, "sms-code": true}

func userStrings(u harness.User) []string {
	var out []string
	v := reflect.ValueOf(u)
	for i := 0; i < v.NumField(); i++ {
		f := v.Field(i)
		if v.Type().Field(i).Name == "TOTPLastCode" {
			// holds, by design, whatever was last typed into the TOTP code field (replay
			// protection); a secret typed into the wrong field is not "stored by the library as a credential"
			continue
		}
		switch f.Kind() {
		case reflect.String:
			out = append(out, f.String())
		case reflect.Slice:
			if f.Type().Elem().Kind() == reflect.String {
				for j := 0; j < f.Len(); j++ {
					out = append(out, f.Index(j).String())
				}
			}
		case reflect.Map:
			if f.Type().Key().Kind() == reflect.String && f.Type().Elem().Kind() == reflect.String {
				it := f.MapRange()
				for it.Next() {
					out = append(out, it.Key().String(), it.Value().String())
				}
			}
		}
	}
	return out
}

func selectorOf(tok string) string {
	raw, err := base64.URLEncoding.DecodeString(tok)
	if err != nil || len(raw) != 64 {
		return ""
	}
	s := sha512.Sum512(raw[:32])
	return base64.StdEncoding.EncodeToString(s[:])
}

func (c *monC17) After(m *Machine, s *Step) *Violation {
	// secrets typed in this step are registered by the engine before the monitor runs
	for _, k := range m.KB.Secrets {
		c.kinds[k] = true
	}
	if s.Resp != nil && (s.Op.K == "confirm" || s.Op.K == "recend" || s.Op.K == "evend") && s.Op.Mut != "" && s.Secret != "" {
		c.rejectedTokenSubmission = true
		m.KB.secret(s.Secret, "token-typed")
	}
	// 1a. the replay-protection column may hold only what was typed into the TOTP *code* field of this request
	for pid, u := range s.Post.Users {
		pre := s.Pre.Users[pid]
		if u.TOTPLastCode == pre.TOTPLastCode || len(u.TOTPLastCode) < 8 {
			continue
		}
		typedAsCode := (s.Op.K == "totpvalidate" || s.Op.K == "totpremove" || s.Op.K == "totpconfirm") && !s.Op.F && s.Secret == u.TOTPLastCode
		if typedAsCode {
			continue
		}
		for sec, kind := range m.KB.Secrets {
			if secretKinds[kind] && len(sec) >= 8 && strings.Contains(u.TOTPLastCode, sec) {
				return violation("C17", "secret-in-storage:"+kind+":totp-last-code", "after %s the TOTP last-code column of %q holds the %s %q in clear text although it was not typed into the code field", s.Op.K, pid, kind, sec)
			}
		}
	}
	// 1. storage
	for pid, u := range s.Post.Users {
		pre, had := s.Pre.Users[pid]
		if had && userEqual(pre, u) {
			continue
		}
		for _, field := range userStrings(u) {
			if len(field) < 8 {
				continue
			}
			for sec, kind := range m.KB.Secrets {
				if !secretKinds[kind] || len(sec) < 8 || !strings.Contains(field, sec) {
					continue
				}
				if kind == "remember-cookie-raw" || strings.HasSuffix(kind, "-typed") && m.KB.idx(sec) >= 0 {
					continue
				}
				// a PID typed as a password by the generator is not a secret
				if _, isPID := s.Post.Users[sec]; isPID {
					continue
				}
				return violation("C17", "secret-in-storage:"+kind, "after %s the stored record of %q contains the %s %q in recoverable form (field value %.60q)", s.Op.K, pid, kind, sec, field)
			}
		}
	}
	for pid, toks := range s.Post.Tokens {
		for _, t := range toks {
			for sec, kind := range m.KB.Secrets {
				if (kind == "remember-cookie" || kind == "remember-cookie-raw") && len(sec) >= 8 && strings.Contains(t, sec) {
					return violation("C17", "remember-token-stored-in-clear", "the remember table of %q holds the cookie value itself", pid)
				}
			}
		}
	}
	// 2. log lines
	lines := m.W.Log.Since(c.logSeen)
	c.logSeen += len(lines)
	for _, line := range lines {
		for sec, kind := range m.KB.Secrets {
			if len(sec) < 8 || !strings.Contains(line, sec) {
				continue
			}
			if !secretKinds[kind] && kind != "token-typed" {
				continue
			}
			if _, isPID := s.Post.Users[sec]; isPID {
				continue
			}
			if kind == "remember-cookie-raw" {
				continue // contains the PID; the cookie value proper is checked as 'remember-cookie'
			}
			if strings.HasSuffix(kind, "-typed") && kind != "token-typed" {
				// a rejected password/otp counts only while it is being submitted as one
				// (the same junk string typed later into a token field is not a password)
				pwOp := s.Op.K == "login" || s.Op.K == "register" || s.Op.K == "otplogin" || s.Op.K == "recend"
				if !pwOp || (s.Secret != sec && s.Op.S != sec) {
					continue
				}
			}
			if kind == "token-typed" {
				// a mangled submission is only a leak if it embeds a genuine token
				embeds := false
				for s2, k2 := range m.KB.Secrets {
					if (k2 == "confirm-token" || k2 == "recover-token" || k2 == "2fa-verify-token") && strings.Contains(sec, s2) {
						embeds = true
					}
				}
				if !embeds {
					continue
				}
			}
			return violation("C17", "secret-in-log:"+kind+":"+s.Op.K, "a log line written during %s contains the %s %.40q: %.200q", s.Op.K, kind, sec, line)
		}
	}
	// 3. mailed tokens leave only to the account's own addresses
	if ch := m.W.Mail.Changed(); len(ch) > 0 {
		return violation("C17", "mail-changed-after-handoff", "a mail already handed to the mailer was altered by a later request: %s", ch[0])
	}
	if s.Resp != nil {
		for _, ml := range s.Resp.Mails {
			if ml.Token == "" {
				continue
			}
			var allowed []string
			who := ""
			if sel := selectorOf(ml.Token); sel != "" {
				for pid, u := range s.Post.Users {
					if u.ConfirmSelector == sel {
						who, allowed = pid, []string{u.Email}
					}
					if u.RecoverSelector == sel {
						who, allowed = pid, append([]string{u.Email}, u.SecondaryEmails...)
					}
				}
			} else if u, ok := s.Pre.Users[s.Resp.UIDBefore()]; ok {
				who, allowed = u.PID, []string{u.Email}
			}
			if who == "" {
				return violation("C17", "mailed-token-of-nobody", "a token mail went to %v but no account holds that token", ml.To)
			}
			// a token belongs to the account it was first mailed for, for good
			if c.tokenOwner == nil {
				c.tokenOwner = map[string]string{}
			}
			if first, seen := c.tokenOwner[ml.Token]; seen && first != who {
				return violation("C17", "token-mailed-for-second-account", "a token first mailed for %q left the system again in a mail for %q (to %v)", first, who, ml.To)
			}
			c.tokenOwner[ml.Token] = who
			for _, to := range ml.To {
				ok := false
				for _, a := range allowed {
					if a == to {
						ok = true
					}
				}
				if !ok {
					return violation("C17", "token-mailed-to-foreign-address", "the token of %q was mailed to %q (allowed: %v)", who, to, allowed)
				}
			}
			m.flag("mail-checked")
		}
	}
	return nil
}

func (c *monC17) End(m *Machine) *Violation {
	n := 0
	for _, k := range []string{"password", "otp", "recovery", "remember-cookie", "confirm-token", "recover-token", "2fa-verify-token"} {
		if c.kinds[k] {
			n++
		}
	}
	if n >= 3 {
		m.flag("kinds>=3")
	}
	if c.rejectedTokenSubmission {
		m.flag("rejected-token-submission")
	}
	return nil
}

var kindsC17 = append(append([]wk{}, worldKinds...), wk{"snip:register", 6}, wk{"snip:recover", 4}, wk{"confirm", 8}, wk{"recend", 6}, wk{"evend", 3}, wk{"snip:enrol-totp", 1}, wk{"reconfirm", 3}, wk{"snip:mangle", 12}, wk{"snip:evleak", 8}, wk{"snip:evshare", 6})

var profC17 = profile{
	arbVariants: true,
	must:        []string{"auth"}, may: []string{"confirm", "lock", "logout", "oauth2", "otp", "recover", "register", "remember"},
	setups: []string{"totp", "sms", "recovery", "expire"}, kinds: kindsC17, minOps: 14, maxOps: 36,
	accts: [2]int{2, 3}, browsers: [2]int{1, 2}, middlewares: []string{"", "remember", "remember", "expire"},
	tweak: func(t *rapid.T, c *harness.Config) { c.LockAfter = rapid.IntRange(3, 6).Draw(t, "lockafter17") },
	// error paths log and render too: secrets must stay out of storage, logs and mail whichever backend call fails
	faultPct: 10, faultKinds: []string{"generic", "generic", "notfound"},
	jsonMangle: 6, // decode errors are logged too
	badQuery:   4, badQueryForm: true,
}

func TestC17(t *testing.T) {
	st("C17").Rule = "world machine over all flows with every secret the harness typed or was shown registered (passwords incl. rejected ones, one-time passwords, recovery codes, remember cookie values, mailed confirm/recover/2FA-verify tokens, mangled token submissions); after every step a substring scan over every string field of every changed user record, the remember table and every new log line, and a recipient check of every token mail; " +
		"non-trivial = the case exercised >=3 secret kinds and >=1 mangled token submission; distinct by FNV of the abstract trace"
	runWorldProp(t, "C17", profC17, func() Monitor { return &monC17{} }, func(m *Machine) bool {
		return m.Flags["kinds>=3"] && m.Flags["rejected-token-submission"]
	})
}

func init() {
	replayers["world:C17"] = worldReplayer(func() Monitor { return &monC17{} })
}
