package props

import (
	"encoding/json"
	"net/url"
	"strings"
	"testing"

	"github.com/volatiletech/authboss/v3"
	"pgregory.net/rapid"

	"verif/harness"
)

// ---- C14: OAuth2 callbacks need the session's own unused state and bind the named identity

type monC14 struct {
	everValid map[string]bool // states that were valid once (for the non-triviality rule)
}

func (c *monC14) Init(m *Machine) { c.everValid = map[string]bool{} }

func (c *monC14) After(m *Machine, s *Step) *Violation {
	if s.Resp == nil {
		return nil
	}
	op, r := s.Op, s.Resp
	switch op.K {
	case "o2start":
		stt := r.SessAfter[authboss.SessionOAuth2State]
		if r.Rec.HandlerErr == nil && r.Wrote && stt != "" {
			c.everValid[stt] = true
			u, err := url.Parse(r.Location)
			if err != nil || u.Host != harness.ProviderHost || u.Query().Get("state") != stt {
				return violation("C14", "start-state-not-bound", "start redirected to %q which does not carry the session's state %q", r.Location, stt)
			}
			if stt == r.SessBefore[authboss.SessionOAuth2State] {
				return violation("C14", "start-reused-state", "a second start request kept the previous state value")
			}
		}
		return nil
	case "o2cb":
	default:
		return nil
	}
	prov := m.provider(op.N)
	held := r.SessBefore[authboss.SessionOAuth2State]
	id, known := m.W.OAuthCodes[op.S]
	stateOK := held != "" && held == s.Secret
	expect := stateOK && !op.F && known && id.Fail == ""
	wantPID := ""
	if known {
		wantPID = authboss.MakeOAuth2PID(prov, id.UID)
	}
	cls := "own-state"
	switch {
	case op.Src == "absent":
		cls = "absent-state"
	case s.Secret == "":
		cls = "empty-state"
	case !stateOK && c.everValid[s.Secret]:
		cls = "once-valid-state"
		m.flag("replayed-or-cross-browser-callback")
	case !stateOK:
		cls = "foreign-state"
	case op.F:
		cls = "provider-error"
	case !known || id.Fail != "":
		cls = "bad-code"
	}
	if !expect {
		if r.UID() != r.UIDBefore() {
			return violation("C14", "failed-callback-logged-in:"+cls, "callback (%s; held state %q, submitted %q, provider error %v, code %q) changed the session user %q -> %q", cls, held, s.Secret, op.F, op.S, r.UIDBefore(), r.UID())
		}
		if !usersEqual(s.Pre, s.Post) {
			return violation("C14", "failed-callback-touched-users:"+cls, "callback (%s) created or updated users: %v", cls, snapDiff(s.Pre, s.Post))
		}
		if stateOK && r.Wrote {
			if _, still := r.SessAfter[authboss.SessionOAuth2State]; still {
				return violation("C14", "matched-state-not-spent:"+cls, "a callback that matched the session's state (%s) left the state in the session", cls)
			}
		}
		m.flag("rejected:" + cls)
		return nil
	}
	// a callback that satisfies every condition of the statement
	// "On success the session identifies precisely the reported pair": an answer that reports
	// success (the login-ok page or the requested return target) over a session that keeps
	// naming somebody else is not a veto, it is a wrong binding
	if r.Rec.HandlerErr == nil && r.UID() != wantPID && (strings.HasPrefix(r.Location, "/ok/") || (r.Location != "" && contains(redirPool, r.Location))) {
		return violation("C14", "wrong-identity-bound:success-reported", "provider %q reported uid %q and the callback answered %q, but the session identifies %q, want %q", prov, id.UID, r.Location, r.UID(), wantPID)
	}
	if r.Rec.HandlerErr != nil || r.UID() == r.UIDBefore() && r.UIDBefore() != wantPID {
		m.flag("valid-callback-not-logged-in")
		if !usersEqual(s.Pre, s.Post) && r.UID() == r.UIDBefore() {
			// e.g. vetoed after the user was saved: allowed by the statement, nothing to assert
		}
		return nil
	}
	if r.UID() != wantPID {
		return violation("C14", "wrong-identity-bound", "provider %q reported uid %q; the session identifies %q, want %q", prov, id.UID, r.UID(), wantPID)
	}
	post, ok := s.Post.Users[wantPID]
	if !ok || post.OAuth2UID != id.UID || post.OAuth2Provider != prov {
		return violation("C14", "stored-identity-mismatch", "after login as %q storage holds provider=%q uid=%q (exists %v)", wantPID, post.OAuth2Provider, post.OAuth2UID, ok)
	}
	for pid, pre := range s.Pre.Users {
		if pid != wantPID && !userEqual(pre, s.Post.Users[pid]) {
			return violation("C14", "oauth-login-touched-other-user", "login as %q changed account %q", wantPID, pid)
		}
	}
	if len(s.Post.Users) > len(s.Pre.Users)+1 {
		return violation("C14", "oauth-login-created-extra-users", "one callback created %d users", len(s.Post.Users)-len(s.Pre.Users))
	}
	if r.Wrote {
		if _, still := r.SessAfter[authboss.SessionOAuth2State]; still {
			return violation("C14", "matched-state-not-spent:success", "a successful callback left the state in the session")
		}
	}
	m.flag("logged-in")
	if strings.ContainsAny(id.UID, ";") || id.UID == "" || !isASCII(id.UID) {
		m.flag("logged-in-with-hostile-uid")
	}
	return nil
}

func (c *monC14) End(m *Machine) *Violation { return nil }

var kindsC14 = []wk{
	{"o2start", 24}, {"o2cb", 40}, {"newsess", 5}, {"logout", 3}, {"visit", 5}, {"login", 4}, {"snip:oauth", 18}, {"snip:o2stale", 6}, {"snip:o2late", 8}, {"advance", 3},
}

var c14Codes = []string{"code-u1", "code-u1", "code-u2", "code-weird", "code-n1", "code-n2", "code-empty", "code-uni", "code-long", "code-semi", "code-bad", "code-nodetails", "code-unknown"}

var profC14 = profile{
	must: []string{"oauth2"}, may: []string{"auth", "logout", "register"},
	kinds: kindsC14, minOps: 14, maxOps: 36, accts: [2]int{1, 2}, browsers: [2]int{2, 3}, middlewares: []string{""},
	tweak: func(t *rapid.T, c *harness.Config) {
		c.Setups = nil
		c.Providers = []string{"goog", "fb", "git-hub.io"}[:rapid.IntRange(1, 3).Draw(t, "nprov14")]
		for i := range c.Accounts {
			c.Accounts[i].Locked, c.Accounts[i].Unconfirmed, c.Accounts[i].TOTP, c.Accounts[i].Phone = false, false, false, ""
		}
	},
}

func c14Register(w *harness.World) {
	w.RegisterCode("code-empty", harness.OAuthIdentity{UID: "", Email: "e@prov.io"})
	w.RegisterCode("code-uni", harness.OAuthIdentity{UID: "üñï‮code", Email: "u@prov.io"})
	w.RegisterCode("code-long", harness.OAuthIdentity{UID: strings.Repeat("9", 400), Email: "l@prov.io"})
	w.RegisterCode("code-semi", harness.OAuthIdentity{UID: ";;goog;;u1", Email: "s@prov.io"})
}

func TestC14(t *testing.T) {
	s := st("C14")
	s.Rule = "oauth2 machine: 1-3 providers, 2-3 browsers; start and callback requests interleaved across browsers and providers with states that are own, another browser's, previous, empty, mutated or random, good/bad codes, provider errors, provider-returned uids that are empty, contain ';' / ';;', non-ASCII or 400 bytes long; " +
		"oracle: a callback may log in only if the session's held state equals the submitted one, no provider error, exchange and details succeed - then the session identifies exactly MakeOAuth2PID(provider, uid); any other callback leaves the session user and the user table equal; a matched state is spent; " +
		"non-trivial = a cross-browser or replayed callback carrying a state that was valid once; distinct by FNV of the abstract trace"
	p := profC14
	rapid.Check(t, func(rt *rapid.T) {
		cfg := genConfig(rt, p)
		e := genEnv{cfg: cfg, nAcct: len(cfg.Accounts), nBrows: cfg.Browsers}
		ops := genOps(rt, p, e)
		for i := range ops {
			if ops[i].K == "o2cb" || ops[i].K == "o2start" {
				ops[i].N = ops[i].N + rapid.IntRange(0, 2).Draw(rt, "prov14")
			}
			if ops[i].K == "o2cb" && chance(rt, "code14", 60) {
				ops[i].S = pick(rt, "code", c14Codes...)
			}
		}
		c := Case{Cfg: cfg, Ops: ops}
		mach, err := newMachine(c, &monC14{})
		if err != nil {
			rt.Fatalf("world construction failed: %v", err)
		}
		c14Register(mach.W)
		var v *Violation
		for i, op := range c.Ops {
			if v = mach.Exec(i, op); v != nil {
				break
			}
		}
		mach.W.Close()
		var classes []string
		for f := range mach.Flags {
			classes = append(classes, f)
		}
		s.add("steps", mach.NStep)
		s.add("skipped", mach.NSkip)
		s.record(mach.Flags["replayed-or-cross-browser-callback"], mach.Trace.h, classes, func() interface{} { return c })
		handle(rt, v, "world:C14", c)
	})
}

// ---- codec: distinct (provider, uid) pairs never map to the same identifier

func providerName(t *rapid.T, label string) string {
	return rapid.StringMatching(`[a-z0-9._:-]{1,12}`).Draw(t, label)
}

func TestC14Codec(t *testing.T) {
	s := st("C14")
	rapid.Check(t, func(rt *rapid.T) {
		uidGen := rapid.OneOf(rapid.String(), rapid.StringMatching(`[;a-z2]{0,8}`), rapid.StringMatching(`[;%3Bb\\Aa.]{0,8}`), rapid.SampledFrom([]string{"", ";", ";;", "oauth2", ";;x", "x;;", "a;;b;;c", "4;2", "4%3B2", "%3B", "%"}))
		p1, p2 := providerName(rt, "p1"), providerName(rt, "p2")
		u1, u2 := uidGen.Draw(rt, "u1"), uidGen.Draw(rt, "u2")
		if rapid.IntRange(0, 9).Draw(rt, "related") < 4 {
			// a second uid that differs from the first only by a spelling an escaping scheme might fold
			switch rapid.IntRange(0, 7).Draw(rt, "fold") {
			case 0:
				u2 = strings.ReplaceAll(u1, ";", "%3B")
			case 1:
				u2 = strings.ReplaceAll(u1, ";", "%3b")
			case 2:
				u2 = strings.ReplaceAll(u1, ";", "\\;")
			case 3:
				u2 = strings.ReplaceAll(u1, ";;", ";")
			case 4:
				u2 = strings.ToLower(u1)
			case 5:
				u2 = strings.ToUpper(u1)
			case 6:
				u2 = url.QueryEscape(u1)
			case 7:
				u2 = u1 + " "
			}
		}
		if rapid.Bool().Draw(rt, "sameprov") {
			p2 = p1
		}
		pid1, pid2 := authboss.MakeOAuth2PID(p1, u1), authboss.MakeOAuth2PID(p2, u2)
		var v *Violation
		if (p1 != p2 || u1 != u2) && pid1 == pid2 {
			v = violation("C14", "codec-collision", "(%q,%q) and (%q,%q) both map to %q", p1, u1, p2, u2, pid1)
		}
		if gp, gu, err := authboss.ParseOAuth2PID(pid1); err == nil && (gp != p1 || gu != u1) {
			v = violation("C14", "codec-roundtrip", "Parse(Make(%q,%q)) = (%q,%q)", p1, u1, gp, gu)
		}
		s.add("codec-cases", 1)
		handle(rt, v, "c14codec", map[string]string{"p1": p1, "u1": u1, "p2": p2, "u2": u2})
	})
}

func FuzzC14Codec(f *testing.F) {
	f.Add("goog", "u1", "goog", "u1;")
	f.Add("a", ";;b", "a", "b")
	f.Add("fb", "", "fb", ";")
	f.Fuzz(func(t *testing.T, p1, u1, p2, u2 string) {
		if p1 == "" || p2 == "" || strings.Contains(p1, ";") || strings.Contains(p2, ";") {
			return
		}
		pid1, pid2 := authboss.MakeOAuth2PID(p1, u1), authboss.MakeOAuth2PID(p2, u2)
		if (p1 != p2 || u1 != u2) && pid1 == pid2 {
			t.Fatalf("VIOLATION C14 codec-collision (%q,%q) (%q,%q) -> %q", p1, u1, p2, u2, pid1)
		}
		if gp, gu, err := authboss.ParseOAuth2PID(pid1); err == nil && (gp != p1 || gu != u1) {
			t.Fatalf("VIOLATION C14 codec-roundtrip Parse(Make(%q,%q)) = (%q,%q)", p1, u1, gp, gu)
		}
	})
}

func init() {
	replayers["world:C14"] = func(raw json.RawMessage) (*Violation, error) {
		var c Case
		if err := json.Unmarshal(raw, &c); err != nil {
			return nil, err
		}
		mach, err := newMachine(c, &monC14{})
		if err != nil {
			return nil, err
		}
		defer mach.W.Close()
		c14Register(mach.W)
		for i, op := range c.Ops {
			if v := mach.Exec(i, op); v != nil {
				return v, nil
			}
		}
		return nil, nil
	}
}
