package props

import (
	"encoding/json"
	"fmt"
	"net/url"
	"strings"
	"testing"
	"time"

	"github.com/pquerna/otp/totp"
	"pgregory.net/rapid"

	"verif/harness"
)

// ---- C15: client-supplied return targets never redirect off-site

type c15Case struct {
	Redir  string `json:"redir"`
	Flow   string `json:"flow"`   // login otplogin totp sms oauth2
	InBody bool   `json:"inbody"` // deliver redir in the body (form field / JSON member) instead of the query
	JSON   bool   `json:"json"`
	HTTPS  bool   `json:"https"`
	Mount  string `json:"mount"`
	// Redir2, when set, is a second redir value sent in the same request; First says whether it precedes Redir.
	Redir2 string `json:"redir2,omitempty"`
	First  bool   `json:"redir2_first,omitempty"`
	// Pre: what the browser did before the flow: "" nothing, "loggedin" a completed password login (no logout),
	// "other" a completed login as another account
	Pre string `json:"pre,omitempty"`
	// AtFirst (2FA flows): the parameter is delivered with the password step; the code step is then
	// sent the way a browser would, to the URL the password step redirected to (query carried along)
	AtFirst bool `json:"at_first,omitempty"`
	// O2Err (oauth2 flow): the provider's callback reports this error instead of a code (the user pressed cancel, ...)
	O2Err string `json:"o2err,omitempty"`
}

var c15Flows = []string{"login", "otplogin", "totp", "sms", "oauth2"}

func c15Run(c c15Case) *Violation {
	cfg := harness.Config{Seed: 15, Modules: []string{"auth", "otp", "oauth2", "logout"}, Setups: []string{"totp", "sms"}, Mount: c.Mount,
		JSON: c.JSON, HTTPS: c.HTTPS, Browsers: 1, Providers: []string{"goog"},
		Accounts: []harness.AccountSpec{
			{PID: "plain@x.io", Password: "Passw0rd!A", OTPs: 1},
			{PID: "totp@x.io", Password: "Passw0rd!B", TOTP: true},
			{PID: "sms@x.io", Password: "Passw0rd!C", Phone: "+15550002"},
			{PID: "extra@x.io", Password: "Passw0rd!D", OTPs: 1}}}
	w, err := harness.NewWorld(cfg)
	if err != nil {
		return violation("C15", "world", "world construction failed: %v", err)
	}
	defer w.Close()
	w.RegisterCode("code-u1", harness.OAuthIdentity{UID: "u1", Email: "u1@prov.io"})
	switch c.Pre {
	case "loggedin":
		w.Do(harness.Req{Method: "POST", Path: w.Path("/login"), Form: map[string]string{"email": "plain@x.io", "password": "Passw0rd!A"}})
	case "other":
		w.Do(harness.Req{Method: "POST", Path: w.Path("/otp/login"), Form: map[string]string{"email": "extra@x.io", "password": w.Seeded[3].OTPs[0]}})
	}
	q := harness.Req{Method: "POST"}
	multi := func() []string {
		if c.Redir2 == "" {
			return []string{c.Redir}
		}
		if c.First {
			return []string{c.Redir2, c.Redir}
		}
		return []string{c.Redir, c.Redir2}
	}
	deliver := func(q *harness.Req) {
		if c.InBody && c.JSON && q.Method == "POST" {
			// API clients: the value is a member of the JSON body (a second one, if any, in the query)
			q.Form["redir"] = c.Redir
			if c.Redir2 != "" {
				q.Query = url.Values{"redir": {c.Redir2}}
			}
			return
		}
		if c.InBody && !c.JSON && q.Method == "POST" {
			// hostile value in the body, the other (if any) in the query, or both in the body
			q.FormMulti = url.Values{}
			for k, v := range q.Form {
				q.FormMulti.Set(k, v)
			}
			q.FormMulti["redir"] = multi()
		} else {
			q.Query = url.Values{"redir": multi()}
		}
	}
	page := ""
	var startWire *harness.Wire
	switch c.Flow {
	case "login":
		q.Path, q.Form = w.Path("/login"), map[string]string{"email": "plain@x.io", "password": "Passw0rd!A"}
		deliver(&q)
	case "otplogin":
		q.Path, q.Form = w.Path("/otp/login"), map[string]string{"email": "plain@x.io", "password": w.Seeded[0].OTPs[0]}
		deliver(&q)
	case "totp":
		lq := harness.Req{Method: "POST", Path: w.Path("/login"), Form: map[string]string{"email": "totp@x.io", "password": "Passw0rd!B"}}
		if c.AtFirst {
			deliver(&lq)
		}
		lr := w.Do(lq)
		code, _ := totp.GenerateCode(w.Seeded[1].TOTPSecret, time.Now())
		q.Path, q.Form = w.Path("/2fa/totp/validate"), map[string]string{"code": code}
		if c.AtFirst {
			q.RawQuery = queryOf(lr.Location)
		} else {
			deliver(&q)
		}
	case "sms":
		lq := harness.Req{Method: "POST", Path: w.Path("/login"), Form: map[string]string{"email": "sms@x.io", "password": "Passw0rd!C"}}
		if c.AtFirst {
			deliver(&lq)
		}
		r := w.Do(lq)
		q.Path, q.Form = w.Path("/2fa/sms/validate"), map[string]string{"code": r.SessAfter["sms_secret"]}
		if c.AtFirst {
			q.RawQuery = queryOf(r.Location)
		} else {
			deliver(&q)
		}
	case "oauth2":
		// the start request carries the parameter too: its own answer is judged like the final one
		sw, err := w.DoSocket(harness.Req{Method: "GET", Path: w.Path("/oauth2/goog"), Query: url.Values{"redir": multi()}})
		if err != nil {
			return nil
		}
		startWire = sw
		q = harness.Req{Method: "GET", Path: w.Path("/oauth2/callback/goog"), Query: url.Values{"state": {w.Jars[0].SessionCopy()["oauth2_state"]}, "code": {"code-u1"}}}
		if c.O2Err != "" {
			q.Query.Del("code")
			q.Query.Set("error", c.O2Err)
			q.Query.Set("error_description", "the user said no")
		}
	}
	page = q.Path
	_ = page
	wire, err := w.DoSocket(q)
	if err != nil {
		return nil // transport hiccup: inconclusive, never a violation
	}
	scheme := "http"
	if c.HTTPS {
		scheme = "https"
	}
	loggedIn := w.Jars[0].SessionCopy()["uid"] != ""
	if !loggedIn && c.O2Err == "" {
		// the flow did not complete: nothing to judge about its final answer (counted, never a violation)
		st("C15").add("inconclusive", 1)
		return nil
	}
	check := func(where, loc string) *Violation {
		ok, cls := sameSite(loc, scheme, "site.example")
		if ok {
			return nil
		}
		if c.Redir2 != "" {
			cls += "+repeated"
		}
		return violation("C15", "offsite:"+where+":"+flowGroup(c.Flow)+":class="+cls, "flow %s (%s): redir=%q produced %s %q, which a browser on %s://site.example resolves to another origin (%s)", c.Flow, modeName(c), c.Redir, where, loc, scheme, cls)
	}
	if startWire != nil && startWire.HasLocation && !strings.HasPrefix(startWire.RawLocation, "https://"+harness.ProviderHost+"/") {
		// the start answer goes to the configured provider or stays on the site
		if v := check("start-Location", startWire.RawLocation); v != nil {
			return v
		}
	}
	if startWire != nil && startWire.JSON != nil {
		if loc, ok := startWire.JSON["location"].(string); ok && !strings.HasPrefix(loc, "https://"+harness.ProviderHost+"/") {
			if v := check("start-json-location", loc); v != nil {
				return v
			}
		}
	}
	if wire.HasLocation {
		if v := check("Location", wire.RawLocation); v != nil {
			return v
		}
	}
	if wire.JSON != nil {
		if loc, ok := wire.JSON["location"].(string); ok {
			if v := check("json-location", loc); v != nil {
				return v
			}
		}
	}
	return nil
}

func queryOf(loc string) string {
	if i := strings.IndexByte(loc, '?'); i >= 0 {
		return loc[i+1:]
	}
	return ""
}

func flowGroup(f string) string {
	if f == "oauth2" {
		return "oauth2"
	}
	return "redirector"
}

func modeName(c c15Case) string {
	m := "form"
	if c.JSON {
		m = "json"
	}
	if c.InBody {
		m += "+body"
	}
	return m
}

var c15Hosts = []string{"evil.com", "evil.com", "site.example.evil.com", "evil.com:80", "user@evil.com", "site.example@evil.com", "[::1]", "127.0.0.1", "еvil.com", "site.example", "EVIL.COM", "evil.com."}

// c15GenRedir draws from a grammar of safe forms and hostile spellings, plus raw strings.
func c15GenRedir(t *rapid.T) string {
	switch rapid.IntRange(0, 10).Draw(t, "shape") {
	case 10:
		// the decisive characters far apart: long runs of characters a browser drops (tab, CR, LF)
		run := strings.Repeat(pick(t, "ign", "\t", "\n", "\r", "\t\n"), pick(t, "runlen", 1, 7, 31, 62, 63, 64, 65, 100, 200, 1000))
		host := pick(t, "host", c15Hosts...)
		return pick(t, "longshape", "/"+run+"/"+host+"/x", "/"+run+"\\"+host+"/x", "h"+run+"ttps://"+host+"/x", run+"//"+host, "https:"+run+"//"+host, "/"+run+"x/y")
	case 0:
		return pick(t, "safe", "/pow", "pow", "./x", "?q=1", "#f", "/a//b", "/a/b?u=http://h/p", "/a%2F%2Fb", "/%5Cevil.com", "/x?y=//evil.com", "evil.com", "/http:evil")
	case 1:
		return rapid.String().Draw(t, "raw")
	case 2:
		return rapid.StringMatching(`[/\\:a-z.@ \t\x01#?%]{0,12}`).Draw(t, "soup")
	}
	prefix := pick(t, "prefix", "", "", "", "", " ", "\t", "\x01", "\n", "\r\n", "\x00", "\x1f ", "\u00a0", "  ")
	scheme := pick(t, "scheme", "", "", "", "http:", "https:", "HTTPS:", "hTtP:", "javascript:", "data:", "ftp:", "file:", "ht\ttp:", "http\n:", "h\rttps:", "ws:", "x:")
	slashes := pick(t, "slashes", "//", "//", "/\\", "\\/", "\\\\", "/", "", "///", "/\t/", "/\n/", "/\r/", "\t//", "/ /", "/%2F", "/%5C", "/\\/", "\\\t\\", "/\x01/", "/\t\\", "////",
		// bytes that are not valid UTF-8 between the slashes (whatever re-encodes the answer must not drop them)
		"/\xff/", "/\xc0\xaf/", "/\x80\xbf\xfe/", "/\xff\\")
	host := pick(t, "host", c15Hosts...)
	tail := pick(t, "tail", "", "", "/", "/x?y=1#z", "?x", "#f", "\\x", "/..", " ", "\t")
	return prefix + scheme + slashes + host + tail
}

func c15Gen(t *rapid.T) c15Case {
	c := c15Case{Redir: c15GenRedir(t), Flow: pick(t, "flow", c15Flows...), JSON: chance(t, "json", 40), HTTPS: chance(t, "https", 50), Mount: pick(t, "mount", "/auth", "/auth", "")}
	c.InBody = chance(t, "inbody", 40)
	c.Pre = pick(t, "pre", "", "", "", "loggedin", "other")
	c.AtFirst = (c.Flow == "totp" || c.Flow == "sms") && chance(t, "atfirst", 40)
	if c.Flow == "oauth2" && chance(t, "o2err", 30) {
		c.O2Err = pick(t, "o2errkind", "access_denied", "access_denied", "server_error", "x")
	}
	if chance(t, "repeated", 30) {
		// the parameter repeated: a benign value beside the hostile one, in either order
		c.Redir2 = pick(t, "redir2", "/dashboard", "/x", "/a/b?c=1", "//evil.com", "https://evil.com/")
		c.First = rapid.Bool().Draw(t, "redir2first")
	}
	return c
}

func c15Class(c c15Case) (bool, string) {
	scheme := "http"
	if c.HTTPS {
		scheme = "https"
	}
	ok, cls := sameSite(c.Redir, scheme, "site.example")
	if c.Redir2 != "" {
		cls += "+repeated"
	}
	hostile := !ok || strings.ContainsAny(c.Redir, "\\\t\n\r\x00\x01") || strings.Contains(c.Redir, "//") || strings.Contains(c.Redir, ":")
	return hostile, cls
}

func TestC15(t *testing.T) {
	s := st("C15")
	s.Rule = "return-target strings from a grammar of safe relative forms and hostile spellings (absolute URLs in any scheme/case, //host, /\\host, \\/host, scheme:host, leading space/C0 controls, embedded tab/CR/LF, userinfo, ports, IPv6, look-alikes) plus raw random strings; delivered by query or body to the password, OTP, TOTP-validate, SMS-validate and OAuth2 flows, form and JSON, http/https site; " +
		"the response head is read raw from a loopback socket and judged by an independent WHATWG-style same-origin classifier (itself checked against a hand-labelled table); non-trivial = a hostile-class input on a flow that follows the parameter; distinct by (flow, mode, input class, string)"
	rapid.Check(t, func(rt *rapid.T) {
		c := c15Gen(rt)
		hostile, cls := c15Class(c)
		v := c15Run(c)
		s.record(hostile, fnv64(c.Flow, modeName(c), cls, c.Redir, c.Pre, fmt.Sprint(c.AtFirst), c.O2Err), []string{"o2err:" + c.O2Err, "flow:" + c.Flow, "class:" + cls, "pre:" + c.Pre, fmt.Sprintf("at-first:%v", c.AtFirst)}, func() interface{} { return c })
		handle(rt, v, "c15", c)
	})
}

func FuzzC15(f *testing.F) {
	for _, row := range sameSiteTable {
		f.Add(row.L, uint8(0))
		f.Add(row.L, uint8(4))
	}
	f.Fuzz(func(t *testing.T, redir string, sel uint8) {
		c := c15Case{Redir: redir, Flow: c15Flows[int(sel)%len(c15Flows)], JSON: sel&8 != 0, HTTPS: sel&16 != 0, Mount: "/auth", InBody: sel&32 != 0 && sel&8 == 0}
		if v := c15Run(c); v != nil && !isKnown(v.Prop, v.Sig) {
			saveFailure(v, "c15", c)
			t.Fatalf("VIOLATION %s", v.Error())
		}
	})
}

func init() {
	replayers["c15"] = func(raw json.RawMessage) (*Violation, error) {
		var c c15Case
		if err := json.Unmarshal(raw, &c); err != nil {
			return nil, err
		}
		return c15Run(c), nil
	}
}

var _ = fmt.Sprint
