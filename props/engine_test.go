package props

import (
	"context"
	"crypto/sha512"
	"encoding/base64"
	"encoding/json"
	"fmt"
	"net/url"
	"os"
	"strings"
	"time"

	"github.com/pquerna/otp/totp"
	"github.com/volatiletech/authboss/v3"
	"golang.org/x/crypto/bcrypt"

	"verif/harness"
)

var traceOn = os.Getenv("VERIF_TRACE") != ""

// ---- op language (§1.5 of DESIGN.md) --------------------------------------------------

// Op is one step of a history. Everything is symbolic and resolved at
// execution time, so a shrunk list replays without the generator.
type Op struct {
	K string `json:"k"`           // kind
	B int    `json:"b,omitempty"` // browser
	A int    `json:"a,omitempty"` // target account index (-1 unknown pid, -2 empty pid)

	Src string `json:"src,omitempty"` // secret source
	SA  int    `json:"sa,omitempty"`  // account (or browser) the secret is taken from
	SN  int    `json:"sn,omitempty"`  // n-th from last
	Mut string `json:"mut,omitempty"` // mutation
	MA  int    `json:"ma,omitempty"`  // mutation argument

	S  string `json:"s,omitempty"`  // literal / route / method / new password / number
	S2 string `json:"s2,omitempty"` // second literal (redir, query, extra)
	F  bool   `json:"f,omitempty"`  // flag: rm / use recovery_code field / with error
	N  int    `json:"n,omitempty"`  // seconds, provider index, ...

	FA int    `json:"fa,omitempty"` // C18: fail the FA-th backend call of this request (1-based)
	FK string `json:"fk,omitempty"` // C18: error kind: generic | notfound | found
	FN string `json:"fn,omitempty"` // fail the first backend call of this name in the request (generic error)
	RQ string `json:"rq,omitempty"` // junk appended to the request's raw query (malformed escapes, ';' separators)
	X  string `json:"x,omitempty"`  // 2FA steps with a recovery code: what the code field holds at the same time (totp | smssess | junk)
	JM string `json:"jm,omitempty"` // JSON mode: how the encoded body is spoiled (bool | num | null | trunc | array | nested)
}

// Case is a complete, replayable scenario.
type Case struct {
	Cfg harness.Config `json:"cfg"`
	Ops []Op           `json:"ops"`
}

// ---- knowledge base: what the harness typed or was shown ---------------------------------

type mailedToken struct {
	Token string
	At    time.Duration // virtual time of issue
	Seq   int
	To    []string
}

type kbAcct struct {
	PID        string
	Email      string
	PWs        []string // passwords legitimately typed for this account (last = latest)
	OTPs       []string
	Rec        []string
	CnfToks    []mailedToken
	RecToks    []mailedToken
	EvToks     []mailedToken
	Cookies    []string
	Seeded     bool
	Registered bool
}

type kb struct {
	Accts  []*kbAcct
	byPID  map[string]int
	States [][]string // oauth2 states seen per browser
	seq    int
	// every secret ever typed or shown, for C17
	Secrets map[string]string // value -> kind
}

func (k *kb) acct(i int) *kbAcct {
	if i < 0 || i >= len(k.Accts) {
		return nil
	}
	return k.Accts[i]
}

func (k *kb) idx(pid string) int {
	if i, ok := k.byPID[pid]; ok {
		return i
	}
	return -1
}

func (k *kb) byEmail(email string) int {
	for i, a := range k.Accts {
		if a.Email == email {
			return i
		}
	}
	return -1
}

func (k *kb) addAcct(pid, email, pw string) int {
	if i, ok := k.byPID[pid]; ok {
		return i
	}
	k.Accts = append(k.Accts, &kbAcct{PID: pid, Email: email, PWs: []string{pw}})
	k.byPID[pid] = len(k.Accts) - 1
	return len(k.Accts) - 1
}

func (k *kb) secret(v, kind string) {
	if len(v) >= 6 {
		k.Secrets[v] = kind
	}
	// a base64 token leaks just as well without its padding (e.g. when a URL with the
	// padding percent-escaped is logged): register the unpadded core too
	if strings.HasSuffix(kind, "-token") {
		if core := strings.TrimRight(v, "="); core != v && len(core) >= 16 {
			k.Secrets[core] = kind
		}
	}
}

// ---- machine -------------------------------------------------------------------------------

// Step is everything a monitor may look at after one op.
type Step struct {
	I       int
	Op      Op
	Skipped bool
	Why     string
	Pid     string // resolved PID argument
	Secret  string // resolved secret argument
	Pre     harness.Snap
	Post    harness.Snap
	Req     *harness.Req
	Resp    *harness.Resp
	VClock  time.Duration // before the op
	// JarsPre: every browser's session/cookies before the op
	SessPre  []map[string]string
	CookPre  []map[string]string
	SMSBase  int   // len of SMS outbox before the op
	APIErr   error // what an application-side call (Lock, Unlock, UpdatePassword) answered
	HasAPI   bool
	APIFired string // the backend call of that application-side call that was made to fail, if any
}

// Monitor is a per-property oracle.
type Monitor interface {
	Init(m *Machine)
	After(m *Machine, s *Step) *Violation
	End(m *Machine) *Violation
}

type Machine struct {
	C     Case
	W     *harness.World
	KB    *kb
	Mon   Monitor
	Trace *fper
	NSkip int
	NStep int
	Flags map[string]bool // class labels raised during the case
	Hung  bool            // a request never returned; the history was cut there

	lastCalls []string // backend calls of the most recent request
}

func (m *Machine) flag(s string) { m.Flags[s] = true }

func newMachine(c Case, mon Monitor) (*Machine, error) {
	w, err := harness.NewWorld(c.Cfg)
	if err != nil {
		return nil, err
	}
	m := &Machine{C: c, W: w, Mon: mon, Trace: newFP(), Flags: map[string]bool{}}
	m.KB = &kb{byPID: map[string]int{}, Secrets: map[string]string{}}
	for i, a := range c.Cfg.Accounts {
		email := a.Email
		if email == "" {
			email = a.PID
		}
		ka := &kbAcct{PID: a.PID, Email: email, PWs: []string{a.Password}, Seeded: true}
		ka.OTPs = append(ka.OTPs, w.Seeded[i].OTPs...)
		ka.Rec = append(ka.Rec, w.Seeded[i].Recovery...)
		m.KB.Accts = append(m.KB.Accts, ka)
		m.KB.byPID[a.PID] = i
		m.KB.secret(a.Password, "password")
		for _, o := range ka.OTPs {
			m.KB.secret(o, "otp")
		}
		for _, o := range ka.Rec {
			m.KB.secret(o, "recovery")
		}
	}
	m.KB.States = make([][]string, len(w.Jars))
	w.RegisterCode("code-u1", harness.OAuthIdentity{UID: "u1", Email: "u1@prov.io"})
	w.RegisterCode("code-u2", harness.OAuthIdentity{UID: "u2", Email: "u2@prov.io"})
	w.RegisterCode("code-weird", harness.OAuthIdentity{UID: "x;y;;z", Email: "weird@prov.io"})
	// two people whose provider ids are 21-digit numbers differing in the last digit (what Google's ids look like);
	// a provider that sends ids as bare JSON numbers does so for these (harness.providerRT)
	w.RegisterCode("code-n1", harness.OAuthIdentity{UID: "108436373289711265891", Email: "n1@prov.io"})
	w.RegisterCode("code-n2", harness.OAuthIdentity{UID: "108436373289711265892", Email: "n2@prov.io"})
	w.RegisterCode("code-bad", harness.OAuthIdentity{UID: "u1", Fail: "exchange"})
	w.RegisterCode("code-nodetails", harness.OAuthIdentity{UID: "u1", Fail: "details"})
	if mon != nil {
		mon.Init(m)
	}
	return m, nil
}

func (m *Machine) pidField() string {
	if m.C.Cfg.Username {
		return "username"
	}
	return "email"
}

// pidOf resolves the target account of an op to a PID string.
func (m *Machine) pidOf(a int) string {
	switch {
	case a == -1:
		// an identifier nobody has; its shape varies with the world
		shape := m.C.Cfg.Seed % 4
		if m.C.Cfg.Username {
			return []string{"nobody", "nobody", "q", "zz"}[shape]
		}
		return []string{"nobody@x.io", "nobody@x.io", "q@x.io", "@x.io"}[shape]
	case a == -2:
		return ""
	case a <= -3:
		// case-mangled spelling of an existing pid
		if ka := m.KB.acct((-a - 3) % max(1, len(m.KB.Accts))); ka != nil {
			return strings.ToUpper(ka.PID)
		}
		return "NOBODY@X.IO"
	}
	if ka := m.KB.acct(a % max(1, len(m.KB.Accts))); ka != nil {
		return ka.PID
	}
	return "nobody@x.io"
}

func max(a, b int) int {
	if a > b {
		return a
	}
	return b
}

func nthLast(l []string, n int) (string, bool) {
	if len(l) == 0 {
		return "", false
	}
	if n < 0 {
		n = -n
	}
	return l[len(l)-1-(n%len(l))], true
}

func nthLastTok(l []mailedToken, n int) (string, bool) {
	if len(l) == 0 {
		return "", false
	}
	if n < 0 {
		n = -n
	}
	return l[len(l)-1-(n%len(l))].Token, true
}

func splitCSV(s string) []string {
	if s == "" {
		return nil
	}
	return strings.Split(s, ",")
}

// resolveSecret turns the symbolic secret of an op into a string.
func (m *Machine) resolveSecret(op Op) (string, bool) {
	kbA := m.KB.acct(op.SA % max(1, len(m.KB.Accts)))
	var stored *harness.User
	if kbA != nil {
		stored = m.W.Store.Peek(kbA.PID)
	}
	var v string
	ok := true
	switch op.Src {
	case "", "empty":
		v = ""
	case "lit":
		v = op.S
	case "long":
		v = strings.Repeat("Aa1!", op.MA/4+1)
	case "pw":
		if kbA == nil {
			return "", false
		}
		v = kbA.PWs[len(kbA.PWs)-1]
	case "pwold":
		if kbA == nil || len(kbA.PWs) < 2 {
			return "", false
		}
		v = kbA.PWs[len(kbA.PWs)-2-(op.SN%(len(kbA.PWs)-1))]
	case "pwhash":
		if stored == nil {
			return "", false
		}
		v = stored.Password
	case "otp":
		if kbA == nil {
			return "", false
		}
		v, ok = nthLast(kbA.OTPs, op.SN)
	case "otphash":
		if stored == nil {
			return "", false
		}
		v, ok = nthLast(splitCSV(stored.OTPs), op.SN)
	case "rec":
		if kbA == nil {
			return "", false
		}
		v, ok = nthLast(kbA.Rec, op.SN)
	case "rechash":
		if stored == nil {
			return "", false
		}
		v, ok = nthLast(splitCSV(stored.RecoveryCodes), op.SN)
	case "totp", "totpprev", "totp-2", "totp+2":
		if stored == nil || stored.TOTPSecretKey == "" {
			return "", false
		}
		at := time.Now()
		switch op.Src {
		case "totpprev":
			at = at.Add(-5 * time.Minute)
		case "totp-2":
			at = at.Add(-60 * time.Second) // two periods back: just outside the validity window
		case "totp+2":
			at = at.Add(60 * time.Second)
		}
		c, err := totp.GenerateCode(stored.TOTPSecretKey, at)
		if err != nil {
			return "", false
		}
		v = c
	case "totpsess", "totpsess-2":
		sec, has := m.W.Jars[op.B].SessionCopy()["totp_secret"]
		if !has {
			return "", false
		}
		at := time.Now()
		if op.Src == "totpsess-2" {
			at = at.Add(-60 * time.Second)
		}
		c, err := totp.GenerateCode(sec, at)
		if err != nil {
			return "", false
		}
		v = c
	case "sms":
		if stored == nil {
			return "", false
		}
		num := stored.SMSPhone
		if num == "" {
			num = m.C.Cfg.Accounts[op.SA%max(1, len(m.C.Cfg.Accounts))].Phone
		}
		var codes []string
		for _, s := range m.W.SMS.Since(0) {
			if s.Number == num && num != "" {
				codes = append(codes, s.Code)
			}
		}
		v, ok = nthLast(codes, op.SN)
	case "smsnum":
		var codes []string
		for _, s := range m.W.SMS.Since(0) {
			if s.Number == op.S {
				codes = append(codes, s.Code)
			}
		}
		v, ok = nthLast(codes, op.SN)
	case "smsany":
		var codes []string
		for _, s := range m.W.SMS.Since(0) {
			codes = append(codes, s.Code)
		}
		v, ok = nthLast(codes, op.SN)
	case "smssess":
		v, ok = m.W.Jars[op.B].SessionCopy()["sms_secret"]
	case "cnftok":
		if kbA == nil {
			return "", false
		}
		v, ok = nthLastTok(kbA.CnfToks, op.SN)
	case "rectok":
		if kbA == nil {
			return "", false
		}
		v, ok = nthLastTok(kbA.RecToks, op.SN)
	case "evtok":
		if kbA == nil {
			return "", false
		}
		v, ok = nthLastTok(kbA.EvToks, op.SN)
	case "sesstok":
		v, ok = m.W.Jars[op.B].SessionCopy()[authboss.Session2FAAuthToken]
	case "cnfsel", "cnfver", "recsel", "recver":
		if stored == nil {
			return "", false
		}
		v = map[string]string{"cnfsel": stored.ConfirmSelector, "cnfver": stored.ConfirmVerifier, "recsel": stored.RecoverSelector, "recver": stored.RecoverVerifier}[op.Src]
		ok = v != ""
	case "cnfraw", "recraw":
		// the two stored hashes' first 32 bytes re-encoded as if they were a raw token
		if stored == nil {
			return "", false
		}
		sel, ver := stored.ConfirmSelector, stored.ConfirmVerifier
		if op.Src == "recraw" {
			sel, ver = stored.RecoverSelector, stored.RecoverVerifier
		}
		sb, e1 := base64.StdEncoding.DecodeString(sel)
		vb, e2 := base64.StdEncoding.DecodeString(ver)
		if e1 != nil || e2 != nil || len(sb) < 32 || len(vb) < 32 {
			return "", false
		}
		v = base64.URLEncoding.EncodeToString(append(append([]byte{}, sb[:32]...), vb[:32]...))
	case "splicecnf", "splicerec":
		other := m.KB.acct(op.N % max(1, len(m.KB.Accts)))
		if kbA == nil || other == nil {
			return "", false
		}
		var t1, t2 string
		var o1, o2 bool
		if op.Src == "splicecnf" {
			t1, o1 = nthLastTok(kbA.CnfToks, 0)
			t2, o2 = nthLastTok(other.CnfToks, 0)
		} else {
			t1, o1 = nthLastTok(kbA.RecToks, 0)
			t2, o2 = nthLastTok(other.RecToks, 0)
		}
		if !o1 || !o2 {
			return "", false
		}
		b1, e1 := base64.URLEncoding.DecodeString(t1)
		b2, e2 := base64.URLEncoding.DecodeString(t2)
		if e1 != nil || e2 != nil || len(b1) != 64 || len(b2) != 64 {
			return "", false
		}
		v = base64.URLEncoding.EncodeToString(append(append([]byte{}, b1[:32]...), b2[32:]...))
	case "cookie":
		if kbA == nil {
			return "", false
		}
		v, ok = nthLast(kbA.Cookies, op.SN)
	case "state":
		b := op.SA % len(m.W.Jars)
		v, ok = m.W.Jars[b].SessionCopy()[authboss.SessionOAuth2State]
	case "stateold":
		b := op.SA % len(m.W.Jars)
		v, ok = nthLast(m.KB.States[b], op.SN)
	case "rand6":
		v = fmt.Sprintf("%06d", (op.MA*7919+op.SN*104729)%1000000)
	default:
		return "", false
	}
	if !ok {
		return "", false
	}
	return mutate(v, op.Mut, op.MA), true
}

func mutate(v, mut string, arg int) string {
	if arg < 0 {
		arg = -arg
	}
	switch mut {
	case "":
		return v
	case "flip":
		// flip one bit of the decoded bytes if v is base64url, else of the string
		if b, err := base64.URLEncoding.DecodeString(v); err == nil && len(b) > 0 {
			bit := arg % (len(b) * 8)
			b[bit/8] ^= 1 << uint(bit%8)
			return base64.URLEncoding.EncodeToString(b)
		}
		if len(v) == 0 {
			return "x"
		}
		b := []byte(v)
		i := arg % len(b)
		if b[i] == 'a' {
			b[i] = 'b'
		} else {
			b[i] = 'a'
		}
		return string(b)
	case "trunc":
		if len(v) == 0 {
			return v
		}
		return v[:len(v)-1-(arg%len(v))]
	case "nonceonly", "sepnonce", "pidonly":
		// a remember cookie cut at its own seams: only the 32-byte nonce, ';'+nonce, or only the pid part
		b, err := base64.URLEncoding.DecodeString(v)
		if err != nil || len(b) < 34 {
			return v
		}
		switch mut {
		case "nonceonly":
			b = b[len(b)-32:]
		case "sepnonce":
			b = b[len(b)-33:]
		default:
			b = b[:len(b)-33]
		}
		return base64.URLEncoding.EncodeToString(b)
	case "tail":
		// the last 1..len-1 characters
		if len(v) < 2 {
			return v
		}
		return v[1+(arg%(len(v)-1)):]
	case "truncbytes":
		if b, err := base64.URLEncoding.DecodeString(v); err == nil && len(b) > 0 {
			return base64.URLEncoding.EncodeToString(b[:len(b)-1-(arg%len(b))])
		}
		return v
	case "extbytes":
		if b, err := base64.URLEncoding.DecodeString(v); err == nil {
			return base64.URLEncoding.EncodeToString(append(b, byte(arg), byte(arg>>3))[:len(b)+1+arg%2])
		}
		return v + "A"
	case "ext":
		return v + "A"
	case "dot":
		return v + "."
	case "space":
		return v + " "
	case "lead":
		return " " + v
	case "crlf":
		if len(v) == 0 {
			return "\n"
		}
		i := arg % len(v)
		return v[:i] + "\r\n" + v[i:]
	case "altbits":
		// non-canonical trailing bits: same decoded bytes under Go's lenient decoder
		i := strings.IndexByte(v, '=')
		if i <= 0 {
			return v
		}
		const alpha = "ABCDEFGHIJKLMNOPQRSTUVWXYZabcdefghijklmnopqrstuvwxyz0123456789-_"
		p := strings.IndexByte(alpha, v[i-1])
		if p < 0 {
			return v
		}
		unused := 15 // "==" leaves 4 unused bits
		if len(v)-i == 1 {
			unused = 3
		}
		return v[:i-1] + string(alpha[p|(1+arg%unused)]) + v[i:]
	case "std64":
		return strings.NewReplacer("-", "+", "_", "/").Replace(v)
	case "upper":
		return strings.ToUpper(v)
	case "lower":
		return strings.ToLower(v)
	case "prefix":
		if len(v) < 2 {
			return v
		}
		return v[:1+arg%(len(v)-1)]
	case "double":
		return v + v
	case "nul":
		return v + "\x00"
	}
	return v
}

// request construction -------------------------------------------------------------------

func (m *Machine) withRedir(q *harness.Req, redir string) {
	if redir == "" {
		return
	}
	if q.Query == nil {
		q.Query = url.Values{}
	}
	q.Query.Set("redir", redir)
}

// tokenReq places a mailed-link token where the configured method expects it.
func (m *Machine) tokenReq(b int, path, field, tok string) harness.Req {
	method := m.C.Cfg.MailMethod
	if method == "" {
		method = "GET"
	}
	q := harness.Req{Browser: b, Method: method, Path: m.W.Path(path)}
	if m.C.Cfg.JSON || method == "POST" {
		q.Form = map[string]string{field: tok}
	} else {
		q.Query = url.Values{field: {tok}}
	}
	return q
}

func (m *Machine) codeFields(op Op, secret string) map[string]string {
	if op.F {
		f := map[string]string{"recovery_code": secret}
		if secret == "" {
			return f // an empty recovery field does not decide anything: keep the code field empty too
		}
		// Both fields at once: the recovery code decides (it is looked at first), the
		// code field rides along. op.X names what it holds: the account's current TOTP
		// code or the SMS code the session holds.
		switch op.X {
		case "totp":
			if c, ok := m.resolveSecret(Op{K: op.K, B: op.B, A: op.A, SA: op.A, Src: "totp"}); ok {
				f["code"] = c
			}
		case "smssess":
			if c, ok := m.resolveSecret(Op{K: op.K, B: op.B, A: op.A, SA: op.A, Src: "smssess"}); ok {
				f["code"] = c
			}
		case "junk":
			f["code"] = "000000"
		}
		return f
	}
	return map[string]string{"code": secret}
}

// build turns an op into a request (nil for programmatic ops).
func (m *Machine) build(op Op, pid, secret string) *harness.Req {
	b := op.B % len(m.W.Jars)
	P := m.W.Path
	switch op.K {
	case "login", "otplogin":
		f := map[string]string{m.pidField(): pid, "password": secret}
		if op.F {
			f["rm"] = "true"
		} else if op.N >= 1 && op.N <= len(rmRefusals) {
			f["rm"] = rmRefusals[op.N-1]
		}
		route := "/login"
		if op.K == "otplogin" {
			route = "/otp/login"
		}
		q := harness.Req{Browser: b, Method: "POST", Path: P(route), Form: f}
		m.withRedir(&q, op.S2)
		return &q
	case "otpadd":
		return &harness.Req{Browser: b, Method: "POST", Path: P("/otp/add"), Form: map[string]string{}}
	case "otpclear":
		return &harness.Req{Browser: b, Method: "POST", Path: P("/otp/clear"), Form: map[string]string{}}
	case "register":
		f := map[string]string{m.pidField(): pid, "password": secret, "confirm_password": secret}
		if m.C.Cfg.Username {
			f["email"] = pid + "@mail.io"
		}
		if op.S2 != "" {
			var extra map[string]string
			if json.Unmarshal([]byte(op.S2), &extra) == nil {
				for k, v := range extra {
					f[k] = v
				}
			}
		}
		return &harness.Req{Browser: b, Method: "POST", Path: P("/register"), Form: f}
	case "confirm":
		q := m.tokenReq(b, "/confirm", "cnf", secret)
		return &q
	case "recstart":
		return &harness.Req{Browser: b, Method: "POST", Path: P("/recover"), Form: map[string]string{m.pidField(): pid}}
	case "recend":
		return &harness.Req{Browser: b, Method: "POST", Path: P("/recover/end"), Form: map[string]string{"token": secret, "password": op.S, "confirm_password": op.S}}
	case "recget":
		// what the mailed link does: open the form
		return &harness.Req{Browser: b, Method: "GET", Path: P("/recover/end"), Query: url.Values{"token": {secret}}}
	case "logout":
		method := op.S
		if method == "" {
			method = m.W.AB.Config.Modules.LogoutMethod
		}
		q := &harness.Req{Browser: b, Method: method, Path: P("/logout")}
		// hints with which proxies / html forms ask a server to treat the request as another method: the
		// library promises to react to the configured method only, so none of them may have any effect
		configured := m.W.AB.Config.Modules.LogoutMethod
		switch op.S2 {
		case "hdr":
			q.Headers = map[string]string{"X-HTTP-Method-Override": configured}
		case "hdr2":
			q.Headers = map[string]string{"X-Method-Override": configured, "X-HTTP-Method": configured}
		case "query":
			q.RawQuery = "_method=" + configured
		case "querylower":
			q.RawQuery = "_method=" + strings.ToLower(configured)
		case "form":
			if method != "GET" && method != "HEAD" {
				q.Form = map[string]string{"_method": configured}
			}
		}
		return q
	case "visit":
		method := "GET"
		if op.Mut != "" {
			method = op.Mut
		}
		return &harness.Req{Browser: b, Method: method, Path: op.S, RawQuery: op.S2}
	case "set":
		return &harness.Req{Browser: b, Method: "GET", Path: "/set", Query: url.Values{"k": {op.S}, "v": {op.S2}}}
	case "o2start":
		prov := m.provider(op.N)
		q := harness.Req{Browser: b, Method: "GET", Path: P("/oauth2/" + prov), Query: url.Values{}}
		if op.F {
			q.Query.Set("rm", "true")
		}
		if op.S2 != "" {
			q.Query.Set("redir", op.S2)
		}
		if op.S != "" {
			q.Query.Set("extra", op.S)
		}
		return &q
	case "o2cb":
		prov := m.provider(op.N)
		q := harness.Req{Browser: b, Method: "GET", Path: P("/oauth2/callback/" + prov), Query: url.Values{"state": {secret}, "code": {op.S}}}
		if op.Src == "absent" {
			q.Query.Del("state") // no state parameter at all (not the same as an empty one)
		}
		if op.F {
			q.Query.Set("error", "access_denied")
			q.Query.Set("error_reason", "user_denied")
		}
		return &q
	case "totpsetup":
		return &harness.Req{Browser: b, Method: "POST", Path: P("/2fa/totp/setup"), Form: map[string]string{}}
	case "totpconfirm":
		return &harness.Req{Browser: b, Method: "POST", Path: P("/2fa/totp/confirm"), Form: m.codeFields(op, secret)}
	case "totpremove":
		return &harness.Req{Browser: b, Method: "POST", Path: P("/2fa/totp/remove"), Form: m.codeFields(op, secret)}
	case "totpvalidate":
		q := harness.Req{Browser: b, Method: "POST", Path: P("/2fa/totp/validate"), Form: m.codeFields(op, secret)}
		m.withRedir(&q, op.S2)
		return &q
	case "smssetup":
		return &harness.Req{Browser: b, Method: "POST", Path: P("/2fa/sms/setup"), Form: map[string]string{"phone_number": op.S}}
	case "smsconfirm":
		return &harness.Req{Browser: b, Method: "POST", Path: P("/2fa/sms/confirm"), Form: m.codeFields(op, secret)}
	case "smsremove":
		return &harness.Req{Browser: b, Method: "POST", Path: P("/2fa/sms/remove"), Form: m.codeFields(op, secret)}
	case "smsvalidate":
		q := harness.Req{Browser: b, Method: "POST", Path: P("/2fa/sms/validate"), Form: m.codeFields(op, secret)}
		m.withRedir(&q, op.S2)
		return &q
	case "smsresend":
		page := op.S
		if page == "" {
			page = "validate"
		}
		return &harness.Req{Browser: b, Method: "POST", Path: P("/2fa/sms/" + page), Form: map[string]string{}}
	case "regen":
		return &harness.Req{Browser: b, Method: "POST", Path: P("/2fa/recovery/regen"), Form: map[string]string{}}
	case "evstart":
		return &harness.Req{Browser: b, Method: "POST", Path: P("/2fa/" + kindOf(op) + "/email/verify"), Form: map[string]string{}}
	case "evend":
		q := m.tokenReq(b, "/2fa/"+kindOf(op)+"/email/verify/end", "token", secret)
		if op.Src == "absent" {
			q.Form, q.Query = nil, nil
			if m.C.Cfg.JSON {
				q.Form = map[string]string{}
			}
		}
		return &q
	case "get":
		return &harness.Req{Browser: b, Method: "GET", Path: P(op.S), RawQuery: op.S2}
	case "raw":
		body := op.S2
		method := "POST"
		if op.F {
			method = "GET"
		}
		return &harness.Req{Browser: b, Method: method, Path: P(op.S), RawBody: &body}
	}
	return nil
}

func kindOf(op Op) string {
	if op.N%2 == 1 {
		return "sms"
	}
	return "totp"
}

func (m *Machine) provider(n int) string {
	if len(m.C.Cfg.Providers) == 0 {
		return "none"
	}
	if n < 0 {
		n = -n
	}
	return m.C.Cfg.Providers[n%len(m.C.Cfg.Providers)]
}

// needsSecret lists op kinds whose Src must resolve.
var needsSecret = map[string]bool{"login": true, "otplogin": true, "register": true, "confirm": true, "recend": true, "recget": true,
	"o2cb": true, "totpconfirm": true, "totpremove": true, "totpvalidate": true, "smsconfirm": true, "smsremove": true,
	"smsvalidate": true, "evend": true, "setcookie": true}

// rmRefusals: what clients send in the remember-me field when the user did NOT ask to be
// remembered (an unticked box submitted by script, a serialised null, another framework's spelling of no).
var rmRefusals = []string{"false", "off", "no", "0", "null", "fAlSe", "false ", "", "undefined", "FALSE"}

// hangJudge is implemented by monitors for which a request that never returns is a violation.
type hangJudge interface {
	OnHang(m *Machine, s *Step) *Violation
}

// Exec runs one op and returns the monitor's verdict.
func (m *Machine) Exec(i int, op Op) *Violation {
	s := &Step{I: i, Op: op, VClock: m.W.VClock, SMSBase: m.W.SMS.Len()}
	m.NStep++
	s.Pid = m.pidOf(op.A)
	if op.K == "register" {
		s.Pid, _ = m.registerArgs(op)
	}
	if needsSecret[op.K] {
		if op.Src == "absent" {
			s.Secret = ""
		} else {
			sec, ok := m.resolveSecret(op)
			if !ok {
				s.Skipped, s.Why = true, "secret source empty"
				m.NSkip++
				m.Trace.add(op.K, "skip")
				return nil
			}
			s.Secret = sec
		}
	}
	for _, j := range m.W.Jars {
		s.SessPre = append(s.SessPre, j.SessionCopy())
		s.CookPre = append(s.CookPre, j.CookieCopy())
	}
	s.Pre = m.W.Store.Snapshot()
	b := op.B % len(m.W.Jars)
	switch op.K {
	case "advance":
		m.W.Advance(time.Duration(op.N) * time.Second)
	case "newsess":
		m.W.Jars[b].ClearSession()
	case "steal":
		from := op.N % len(m.W.Jars)
		if c, ok := m.W.Jars[from].CookieCopy()["rm"]; ok {
			m.W.Jars[b].SetCookie("rm", c)
		} else {
			s.Skipped = true
		}
	case "setcookie":
		m.W.Jars[b].SetCookie("rm", s.Secret)
	case "dropcookie":
		m.W.Jars[b].DelCookie("rm")
	case "lock":
		if ka := m.KB.acct(op.A % max(1, len(m.KB.Accts))); ka != nil {
			s.APIErr, s.HasAPI = m.W.Lock.Lock(context.Background(), ka.PID), true
			if op.S == "far" && m.W.Store.Peek(ka.PID) != nil {
				// an operator's ban: a deadline far beyond anything LockDuration produces
				far := time.Date(2300+op.N%6000, 1, 1, 0, 0, 0, 0, time.UTC)
				m.W.Store.Mutate(ka.PID, func(u *harness.User) { u.Locked = far })
			}
		}
	case "unlock":
		if ka := m.KB.acct(op.A % max(1, len(m.KB.Accts))); ka != nil {
			_ = m.W.Lock.Unlock(context.Background(), ka.PID)
		}
	case "reconfirm":
		if ka := m.KB.acct(op.A % max(1, len(m.KB.Accts))); ka != nil && m.C.Cfg.Has("confirm") {
			nm := m.W.Mail.Len()
			if u, err := m.W.Store.Load(context.Background(), ka.PID); err == nil {
				_ = m.W.Confirm.StartConfirmation(context.Background(), u.(authboss.ConfirmableUser), true)
			}
			m.waitMail()
			m.observeMails(m.W.Mail.Since(nm))
		} else {
			s.Skipped = true
		}
	case "setphone":
		// the application (support desk, another device of the owner) replaces the registered number in storage
		if ka := m.KB.acct(op.A % max(1, len(m.KB.Accts))); ka != nil && m.W.Store.Peek(ka.PID) != nil && m.W.Store.Peek(ka.PID).SMSPhone != "" {
			m.W.Store.Mutate(ka.PID, func(u *harness.User) { u.SMSPhone = op.S })
		} else {
			s.Skipped = true
		}
	case "updpw":
		if ka := m.KB.acct(op.A % max(1, len(m.KB.Accts))); ka != nil {
			if u, err := m.W.Store.Load(context.Background(), ka.PID); err == nil {
				// the application's call may meet a backend failure like any request (fa / fn of the op)
				plan := harness.FaultPlan{}
				if op.FN != "" {
					plan = harness.FaultPlan{Name: op.FN, Kind: "generic"}
				} else if op.FA > 0 {
					plan = harness.FaultPlan{At: op.FA, Kind: op.FK}
				}
				m.W.B.Reset(plan)
				err := m.W.AB.UpdatePassword(context.Background(), u.(authboss.AuthableUser), op.S)
				s.APIErr, s.HasAPI, s.APIFired = err, true, m.W.B.Fired
				m.lastCalls = m.W.B.Snapshot()
				m.W.B.Reset(harness.FaultPlan{})
				if err == nil {
					ka.PWs = append(ka.PWs, op.S)
				}
				m.KB.secret(op.S, "password")
			}
		}
	default:
		req := m.build(op, s.Pid, s.Secret)
		if req == nil {
			s.Skipped, s.Why = true, "unknown op"
			m.NSkip++
			return nil
		}
		if op.FN != "" {
			req.Fault = harness.FaultPlan{Name: op.FN, Kind: "generic"}
		} else if op.FA > 0 {
			req.Fault = harness.FaultPlan{At: op.FA, Kind: op.FK}
		}
		if op.JM != "" && req.RawBody == nil {
			req.JSONMangle = op.JM
		}
		if op.RQ != "" && req.RawQuery == "" {
			rq := req.Query.Encode()
			if rq != "" {
				rq += "&"
			}
			req.RawQuery = rq + op.RQ
		}
		s.Req = req
		s.Resp = m.W.Do(*req)
		m.lastCalls = s.Resp.Calls
		if s.Resp.Hung {
			// The handler is blocked for good (it may hold locks): this world is finished.
			// Monitors whose property speaks about it (C18, C20) judge it; for the others
			// the rest of the history is simply not run.
			m.Hung = true
			m.flag("request-hung")
			if hj, ok := m.Mon.(hangJudge); ok {
				v := hj.OnHang(m, s)
				if v != nil {
					v.Step = i
				}
				return v
			}
			return nil
		}
		m.observe(s)
	}
	if s.Skipped {
		m.NSkip++
		m.Trace.add(op.K, "skip")
		return nil
	}
	s.Post = m.W.Store.Snapshot()
	if traceOn {
		if s.Resp != nil {
			fmt.Printf("TRACE %2d %-12s pid=%q secret=%.24q -> %d loc=%q err=%v panic=%v\n         sess=%v cook=%d calls=%v\n", i, op.K, s.Pid, s.Secret, s.Resp.Status, s.Resp.Location, s.Resp.Rec.HandlerErr, s.Resp.Panic, s.Resp.SessAfter, len(s.Resp.CookAfter), s.Resp.Calls)
		} else {
			fmt.Printf("TRACE %2d %-12s %+v\n", i, op.K, op)
		}
	}
	fired := ""
	if s.Resp != nil && s.Resp.Fired != "" {
		fired = "fault:" + s.Resp.Fired
		m.flag("fault-fired")
	}
	m.Trace.add(op.K, op.Src, op.Mut, m.outcomeClass(s), fired)
	if m.Mon == nil {
		return nil
	}
	v := m.Mon.After(m, s)
	if v != nil {
		v.Step = i
	}
	return v
}

func (m *Machine) waitMail() {
	if m.C.Cfg.MailGo {
		time.Sleep(300 * time.Microsecond)
	}
}

func (m *Machine) outcomeClass(s *Step) string {
	if s.Resp == nil {
		return "prog"
	}
	r := s.Resp
	uid := "same"
	switch {
	case r.UIDBefore() == r.UID():
	case r.UIDBefore() == "":
		uid = "login"
	case r.UID() == "":
		uid = "logout"
	default:
		uid = "switch"
	}
	loc := ""
	if r.Location != "" {
		loc = "L"
		if i := strings.IndexByte(r.Location, '?'); i >= 0 {
			loc = r.Location[:i]
		} else {
			loc = r.Location
		}
		if len(loc) > 24 {
			loc = loc[:24]
		}
	}
	st := "ok"
	if r.JSON != nil {
		if sv, _ := r.JSON["status"].(string); sv != "" {
			st = sv
		}
	}
	if r.Panic != nil {
		st = "panic"
	}
	return fmt.Sprintf("%d|%s|%s|%s", r.Status, uid, loc, st)
}

// observe records everything the client was shown.
func (m *Machine) observe(s *Step) {
	r := s.Resp
	op := s.Op
	b := op.B % len(m.W.Jars)
	m.observeMails(r.Mails)
	// secrets typed
	if s.Secret != "" && (op.Src == "pw" || op.Src == "pwold" || op.Src == "lit" || op.Src == "otp" || op.Src == "rec") {
		switch op.K {
		case "login", "register":
			m.KB.secret(s.Secret, "password-typed")
		case "otplogin":
			m.KB.secret(s.Secret, "otp-typed")
		}
	}
	if op.K == "recend" && op.S != "" {
		m.KB.secret(op.S, "password-typed")
	}
	// who was the session user when the response was produced
	owner := r.UIDBefore()
	if owner == "" {
		owner = r.UID()
	}
	oi := m.KB.idx(owner)
	for _, sm := range r.SMS {
		m.KB.secret(sm.Code, "sms-code") // a texted login / enrolment code is a one-time secret like any other
	}
	if r.JSON != nil {
		if o, ok := r.JSON["otp"].(string); ok && o != "" && oi >= 0 {
			m.KB.Accts[oi].OTPs = append(m.KB.Accts[oi].OTPs, o)
			m.KB.secret(o, "otp")
		}
		if codes, ok := r.JSON["recovery_codes"].([]interface{}); ok && oi >= 0 {
			var shown []string
			for _, c := range codes {
				if cs, ok := c.(string); ok {
					shown = append(shown, cs)
					m.KB.secret(cs, "recovery")
				}
			}
			m.KB.Accts[oi].Rec = append(m.KB.Accts[oi].Rec, shown...)
			m.cheapenRecovery(owner, shown)
		}
	}
	// oauth2 login that created an account
	if op.K == "o2cb" && r.UID() != "" && m.KB.idx(r.UID()) < 0 {
		if u := m.W.Store.Peek(r.UID()); u != nil {
			m.KB.addAcct(r.UID(), u.Email, "")
		}
	}
	// remember cookie issued: work out whom it was issued to from what happened
	// in this request (never from the cookie's own bytes).
	if c, ok := r.CookAfter["rm"]; ok && c != r.CookBefore["rm"] {
		owner := r.UID()
		if rot := m.rotationOwner(s); rot != "" && rot != r.UID() {
			askedRM := false
			switch op.K {
			case "login", "otplogin":
				askedRM = op.F
			case "o2cb":
				askedRM = strings.Contains(r.SessBefore[authboss.SessionOAuth2Params], `"rm":"true"`)
			}
			// The middleware's rotation comes first (UseRememberToken, then
			// AddRememberToken); the login issued its own cookie only if a later
			// AddRememberToken went through.
			firedIdx := -1
			if r.Fired != "" {
				firedIdx = op.FA - 1
			}
			idx := 0
			if len(r.Calls) > 0 && r.Calls[0] == "UseRememberToken" {
				idx = 1
				if firedIdx != 0 && len(r.Calls) > 1 && r.Calls[1] == "AddRememberToken" {
					idx = 2
				}
			}
			loginAdds := 0
			for ci := idx; ci < len(r.Calls); ci++ {
				if r.Calls[ci] == "AddRememberToken" && ci != firedIdx {
					loginAdds++
				}
			}
			if !askedRM || loginAdds == 0 {
				owner = rot
			}
		}
		if ui := m.KB.idx(owner); ui >= 0 {
			m.KB.Accts[ui].Cookies = append(m.KB.Accts[ui].Cookies, c)
		}
		m.KB.secret(c, "remember-cookie")
		if raw, err := base64.URLEncoding.DecodeString(c); err == nil {
			m.KB.secret(string(raw), "remember-cookie-raw")
		}
	}
	// oauth2 state issued
	if stt, ok := r.SessAfter[authboss.SessionOAuth2State]; ok && stt != r.SessBefore[authboss.SessionOAuth2State] {
		m.KB.States[b] = append(m.KB.States[b], stt)
	}
	// registration that created an account
	if op.K == "register" {
		if u := m.W.Store.Peek(s.Pid); u != nil {
			if _, existed := s.Pre.Users[s.Pid]; !existed {
				m.KB.addAcct(s.Pid, u.Email, s.Secret)
			}
		}
	}
	// a recover-end that changed the stored hash: the typed password becomes the account's password
	if op.K == "recend" {
		for pid, post := range m.W.Store.Snapshot().Users {
			if pre, ok := s.Pre.Users[pid]; ok && pre.Password != post.Password {
				if i := m.KB.idx(pid); i >= 0 {
					m.KB.Accts[i].PWs = append(m.KB.Accts[i].PWs, op.S)
				}
			}
		}
	}
}

// rotationOwner: if this request arrived without a session user, through the
// remember middleware, carrying a cookie the harness knows was issued to X and
// whose hash storage held for X, the middleware re-authenticated X.
func (m *Machine) rotationOwner(s *Step) string {
	if m.C.Cfg.Middleware != "remember" || s.Resp == nil || s.Resp.UIDBefore() != "" {
		return ""
	}
	c, ok := s.Resp.CookBefore["rm"]
	if !ok {
		return ""
	}
	raw, err := base64.URLEncoding.DecodeString(c)
	if err != nil {
		return ""
	}
	sum := sha512.Sum512(raw)
	h := base64.StdEncoding.EncodeToString(sum[:])
	for _, a := range m.KB.Accts {
		for _, kc := range a.Cookies {
			kraw, err := base64.URLEncoding.DecodeString(kc)
			if err != nil || string(kraw) != string(raw) {
				continue
			}
			for _, t := range s.Pre.Tokens[a.PID] {
				if t == h {
					return a.PID
				}
			}
		}
	}
	return ""
}

// cheapenRecovery verifies position-wise that the stored hashes match the
// codes just shown and then re-hashes them at bcrypt.MinCost (a
// state-equivalence-preserving speed-up; the library hard-codes cost 10).
func (m *Machine) cheapenRecovery(pid string, shown []string) {
	u := m.W.Store.Peek(pid)
	if u == nil {
		return
	}
	hs := splitCSV(u.RecoveryCodes)
	if len(hs) != len(shown) {
		return
	}
	cheap := make([]string, len(hs))
	for i := range hs {
		if bcrypt.CompareHashAndPassword([]byte(hs[i]), []byte(shown[i])) != nil {
			return
		}
		cheap[i] = harness.CheapHash(shown[i])
	}
	m.W.Store.Mutate(pid, func(u *harness.User) { u.RecoveryCodes = strings.Join(cheap, ",") })
}

func (m *Machine) observeMails(mails []harness.Mail) {
	for _, ml := range mails {
		if ml.Token == "" {
			continue
		}
		m.KB.seq++
		tok := mailedToken{Token: ml.Token, At: m.W.VClock, Seq: m.KB.seq, To: ml.To}
		if len(ml.To) == 0 {
			continue
		}
		ai := m.KB.byEmail(ml.To[0])
		if ai < 0 {
			continue
		}
		a := m.KB.Accts[ai]
		switch {
		case strings.Contains(ml.URL, "/email/verify/end"):
			a.EvToks = append(a.EvToks, tok)
			m.KB.secret(ml.Token, "2fa-verify-token")
		case strings.Contains(ml.URL, "/recover/end"):
			a.RecToks = append(a.RecToks, tok)
			m.KB.secret(ml.Token, "recover-token")
		case strings.Contains(ml.URL, "/confirm"):
			a.CnfToks = append(a.CnfToks, tok)
			m.KB.secret(ml.Token, "confirm-token")
		}
	}
}

// ---- ground-truth helpers shared by monitors -------------------------------------------------

// customHasherOn: the case under execution configured the application's own hasher (set by runCase).
var customHasherOn bool

// bcryptOK: does the stored value verify the password under the configured hasher?
func bcryptOK(hash, pw string) bool {
	if customHasherOn {
		return harness.VerifySSHA256(hash, pw)
	}
	return hash != "" && bcrypt.CompareHashAndPassword([]byte(hash), []byte(pw)) == nil
}

func otpInList(stored, cand string) bool {
	sum := sha512.Sum512([]byte(cand))
	h := base64.StdEncoding.EncodeToString(sum[:])
	for _, x := range splitCSV(stored) {
		if x == h {
			return true
		}
	}
	return false
}

func recoveryInList(stored, cand string) bool {
	if cand == "" {
		return false
	}
	for _, h := range splitCSV(stored) {
		if bcrypt.CompareHashAndPassword([]byte(h), []byte(cand)) == nil {
			return true
		}
	}
	return false
}

// tokenMatches reports whether tok decodes to 64 bytes whose halves hash to
// the stored selector and verifier (independent recomputation).
func tokenMatches(tok, selector, verifier string) bool {
	raw, err := base64.URLEncoding.DecodeString(tok)
	if err != nil || len(raw) != 64 || selector == "" || verifier == "" {
		return false
	}
	s := sha512.Sum512(raw[:32])
	v := sha512.Sum512(raw[32:])
	return base64.StdEncoding.EncodeToString(s[:]) == selector && base64.StdEncoding.EncodeToString(v[:]) == verifier
}

// cookieHash is how the remember module stores a cookie.
func cookieHash(cookie string) (pidGuess string, hash string, ok bool) {
	raw, err := base64.URLEncoding.DecodeString(cookie)
	if err != nil {
		return "", "", false
	}
	sum := sha512.Sum512(raw)
	return "", base64.StdEncoding.EncodeToString(sum[:]), true
}

// totpValidAt: is code valid for secret at any instant of [t0,t1] (pquerna trusted).
func totpValidAt(code, secret string, t0, t1 time.Time) (atT0, atT1 bool) {
	if secret == "" || code == "" {
		return false, false
	}
	a, _ := totp.ValidateCustom(code, secret, t0, totp.ValidateOpts{Period: 30, Skew: 1, Digits: 6})
	b, _ := totp.ValidateCustom(code, secret, t1, totp.ValidateOpts{Period: 30, Skew: 1, Digits: 6})
	return a, b
}

func snapEqual(a, b harness.Snap) bool {
	if len(a.Users) != len(b.Users) || len(a.Tokens) != len(b.Tokens) {
		return false
	}
	for k, ua := range a.Users {
		ub, ok := b.Users[k]
		if !ok || !userEqual(ua, ub) {
			return false
		}
	}
	for k, ta := range a.Tokens {
		tb, ok := b.Tokens[k]
		if !ok || strings.Join(ta, ",") != strings.Join(tb, ",") {
			return false
		}
	}
	return true
}

func userEqual(a, b harness.User) bool {
	ja, _ := json.Marshal(a)
	jb, _ := json.Marshal(b)
	return string(ja) == string(jb)
}

// snapDiff names the users whose records differ.
func snapDiff(a, b harness.Snap) []string {
	var out []string
	for k, ua := range a.Users {
		ub, ok := b.Users[k]
		if !ok {
			out = append(out, "-"+k)
		} else if !userEqual(ua, ub) {
			ja, _ := json.Marshal(ua)
			jb, _ := json.Marshal(ub)
			out = append(out, fmt.Sprintf("~%s: %s => %s", k, ja, jb))
		}
	}
	for k := range b.Users {
		if _, ok := a.Users[k]; !ok {
			out = append(out, "+"+k)
		}
	}
	for k, ta := range a.Tokens {
		if strings.Join(ta, ",") != strings.Join(b.Tokens[k], ",") {
			out = append(out, "tokens:"+k)
		}
	}
	for k := range b.Tokens {
		if _, ok := a.Tokens[k]; !ok {
			out = append(out, "tokens+:"+k)
		}
	}
	return out
}

// runCase executes a whole case under a monitor.
func runCase(c Case, mon Monitor) (*Machine, *Violation, error) {
	customHasherOn = c.Cfg.CustomHasher
	defer func() { customHasherOn = false }()
	m, err := newMachine(c, mon)
	if err != nil {
		return nil, nil, err
	}
	defer m.W.Close()
	for i, op := range c.Ops {
		if v := m.Exec(i, op); v != nil {
			return m, v, nil
		}
		if m.Hung {
			return m, nil, nil
		}
	}
	if mon != nil {
		if v := mon.End(m); v != nil {
			v.Step = len(c.Ops)
			return m, v, nil
		}
	}
	return m, nil, nil
}
