package props

import (
	"encoding/base64"
	"fmt"
	"strings"
	"testing"

	"pgregory.net/rapid"

	"verif/harness"
)

// ---- C06: a password change revokes the old password, recovery link and remember tokens

var c06PWs = []string{
	"Passw0rd!A", "Passw0rd!A", "Passw0rd!B", "Passw0rd!AB", "Passw0rd!",
	"Aa1!" + strings.Repeat("x", 67),          // 71 bytes
	"Aa1!" + strings.Repeat("x", 68),          // 72 bytes
	"Aa1!" + strings.Repeat("x", 69),          // 73 bytes: bcrypt refuses to hash it
	"Aa1!" + strings.Repeat("x", 68) + "tail", // 76 bytes, same first 72 as the 72-byte one
	"Pw1!Pw1!", "Pw1!Pw1!\x00Pw1!Pw1!", // bcrypt-equivalent pair
	"Passw0rd!\x00A", "Pässw0rd!Ä", "パスワードAa1!", "Passw0rd!a",
	// characters that mean something to URL / form decoding: the password is whatever was typed
	"Tr0ub4dor%26Horse", "Pa55%20word!", "Plus+Sign1!", "Amp&Eq=1aA!", " Lead1ng!A", "Trail1ng!A ",
}

type monC06 struct {
	pw      map[string]string   // pid -> model password
	hashes  map[string][]string // pid|canon -> hashes seen
	changes int
	// revoked: raw bytes of every remember cookie that was issued to the account before one of its password
	// changes - spent or not, wherever a copy may be (the monitor's own record, not storage's)
	revoked map[string]map[string]bool
}

func (c *monC06) Init(m *Machine) {
	c.pw, c.hashes = map[string]string{}, map[string][]string{}
	c.revoked = map[string]map[string]bool{}
	for _, a := range m.C.Cfg.Accounts {
		c.pw[a.PID] = a.Password
	}
}

func (c *monC06) checkChanged(m *Machine, s *Step, pid, newPW, how string) *Violation {
	pre, post := s.Pre.Users[pid], s.Post.Users[pid]
	old := c.pw[pid]
	if !bcryptOK(post.Password, newPW) {
		return violation("C06", "new-password-does-not-verify:"+how, "after %s of %q the stored hash does not verify the new password", how, pid)
	}
	if bcryptCanon(old) != bcryptCanon(newPW) && bcryptOK(post.Password, old) {
		return violation("C06", "old-password-still-verifies:"+how, "after %s of %q the stored hash still verifies the old password", how, pid)
	}
	wantPrefix := "$2"
	if customHasherOn {
		wantPrefix = "$ssha256$"
	}
	if !strings.HasPrefix(post.Password, wantPrefix) || strings.Contains(post.Password, newPW) {
		return violation("C06", "stored-password-not-a-hash:"+how, "after %s of %q the stored value %q is not a hash of the configured hasher / contains the plaintext", how, pid, post.Password)
	}
	key := pid + "|" + bcryptCanon(newPW)
	for _, h := range append(c.hashes[key], pre.Password) {
		if h == post.Password && how != "noop" {
			return violation("C06", "hash-not-salted:"+how, "changing the password of %q to the same value twice produced the identical stored hash", pid)
		}
	}
	c.hashes[key] = append(c.hashes[key], post.Password)
	if how == "recover" && (post.RecoverSelector != "" || post.RecoverVerifier != "") {
		return violation("C06", "recover-token-not-spent", "after recovery of %q the token's selector/verifier are still stored", pid)
	}
	// remember tokens issued before the change
	nCook := len(s.Pre.Tokens[pid])
	if len(s.Post.Tokens[pid]) != 0 && (how == "update" || m.C.Cfg.Has("remember")) {
		return violation("C06", "remember-tokens-survived:"+how, "after %s of %q %d remember token(s) are still stored (%d before)", how, pid, len(s.Post.Tokens[pid]), nCook)
	}
	browsers := 0
	for _, j := range m.W.Jars {
		if ck, ok := j.CookieCopy()["rm"]; ok {
			for _, kc := range m.KB.Accts[m.KB.idx(pid)].Cookies {
				if kc == ck {
					browsers++
					break
				}
			}
		}
	}
	if nCook >= 2 && browsers >= 2 {
		m.flag("change-with>=2-cookies-on>=2-browsers")
	}
	if nCook >= 1 {
		m.flag("change-with-outstanding-cookie")
	}
	// nobody else is affected
	for p, pu := range s.Pre.Users {
		if p != pid && !userEqual(pu, s.Post.Users[p]) {
			return violation("C06", "other-account-affected:"+how, "%s of %q changed account %q", how, pid, p)
		}
	}
	for p, t := range s.Pre.Tokens {
		if p != pid && strings.Join(t, ",") != strings.Join(s.Post.Tokens[p], ",") && m.rotationOwner(s) != p {
			return violation("C06", "other-account-tokens-affected:"+how, "%s of %q changed the remember tokens of %q", how, pid, p)
		}
	}
	if how == "update" || m.C.Cfg.Has("remember") {
		if c.revoked[pid] == nil {
			c.revoked[pid] = map[string]bool{}
		}
		for _, kc := range m.KB.Accts[m.KB.idx(pid)].Cookies {
			c.revoked[pid][cookieRaw(kc)] = true
		}
	}
	c.pw[pid] = newPW
	c.changes++
	m.flag("changed:" + how)
	if bcryptCanon(old) == bcryptCanon(newPW) {
		m.flag("changed-to-equivalent-password")
	}
	return nil
}

func (c *monC06) After(m *Machine, s *Step) *Violation {
	op := s.Op
	// behavioural half of the remember clause: a request without a session user that presents a cookie issued to an
	// account before its password change must not come out as that account (whatever storage says about tokens)
	if r := s.Resp; r != nil && (op.K == "visit" || op.K == "get" || op.K == "set") && r.UIDBefore() == "" {
		if ck, ok := r.CookBefore["rm"]; ok {
			raw := cookieRaw(ck)
			for pid, set := range c.revoked {
				if !set[raw] {
					continue
				}
				m.flag("revoked-cookie-presented")
				if r.UID() == pid || r.Rec.ProbeUID == pid {
					return violation("C06", "revoked-cookie-authenticated", "a remember cookie issued to %q before its password change re-authenticated it (session uid %q, probe saw %q)", pid, r.UID(), r.Rec.ProbeUID)
				}
			}
		}
	}
	switch op.K {
	case "updpw":
		ka := m.KB.acct(op.A % max(1, len(m.KB.Accts)))
		if ka == nil {
			return nil
		}
		if len(op.S) > 72 && !customHasherOn {
			if !snapEqual(s.Pre, s.Post) {
				return violation("C06", "oversized-password-changed-something:update", "UpdatePassword with a %d-byte password (bcrypt refuses it) changed storage: %v", len(op.S), snapDiff(s.Pre, s.Post))
			}
			m.flag("oversized-refused")
			return nil
		}
		return c.checkChanged(m, s, ka.PID, op.S, "update")
	case "recend":
		r := s.Resp
		owner := ""
		for pid, u := range s.Pre.Users {
			if tokenMatches(s.Secret, u.RecoverSelector, u.RecoverVerifier) {
				owner = pid
			}
		}
		authorised := owner != ""
		if authorised {
			u := s.Pre.Users[owner]
			a, z := !r.T0.UTC().After(u.RecoverExpiry), !r.T1.UTC().After(u.RecoverExpiry)
			if a != z {
				st("C06").add("inconclusive", 1)
				if post := s.Post.Users[owner]; post.Password != u.Password {
					c.pw[owner] = op.S
				}
				return nil
			}
			authorised = a && defaultPasswordPolicy.valid(op.S) && (len(op.S) <= 72 || customHasherOn)
		}
		if !authorised {
			if !usersEqual(s.Pre, s.Post) {
				return violation("C06", "unauthorised-recover-changed-storage", "recover end that must be refused (owner %q, password %d bytes, policy ok %v) changed storage: %v", owner, len(op.S), defaultPasswordPolicy.valid(op.S), snapDiff(s.Pre, s.Post))
			}
			if owner != "" && len(op.S) > 72 {
				m.flag("oversized-refused")
			}
			return nil
		}
		return c.checkChanged(m, s, owner, op.S, "recover")
	case "login":
		r := s.Resp
		want, known := c.pw[s.Pid]
		if !known || r == nil {
			return nil
		}
		expect := bcryptCanon(want) == bcryptCanon(s.Secret)
		if m.C.Cfg.Has("lock") && s.Pre.Users[s.Pid].Locked.After(r.T0.UTC()) {
			expect = false // a locked account takes no password at all (the lock is C03's subject; here it only must not confuse the model)
			m.flag("login-while-locked")
		}
		got := r.UID() == s.Pid && r.Rec.HandlerErr == nil && r.Location != "" && !strings.HasPrefix(r.Location, "/notok")
		if r.UIDBefore() == s.Pid {
			// already logged in as that user: judge by the redirect target
			got = strings.HasPrefix(r.Location, "/ok/login") || r.Location == op.S2 && op.S2 != ""
		}
		cls := "old"
		if expect {
			cls = "current"
		}
		if expect != got {
			return violation("C06", "login-disagrees-with-model:"+cls, "login of %q with a password that is %s by the model (equivalent=%v) ended uid=%q status=%d location=%q", s.Pid, cls, expect, r.UID(), r.Status, r.Location)
		}
		if !expect && c.changes > 0 {
			for _, prev := range m.KB.Accts[m.KB.idx(s.Pid)].PWs {
				if bcryptCanon(prev) == bcryptCanon(s.Secret) {
					m.flag("old-password-refused")
				}
			}
		}
		if expect && c.changes > 0 {
			m.flag("new-password-accepted")
		}
	}
	return nil
}

func (c *monC06) End(m *Machine) *Violation { return nil }

// cookieRaw: the bytes a cookie value decodes to (two spellings of the same bytes are the same token), else the value itself.
func cookieRaw(c string) string {
	if raw, err := base64.URLEncoding.DecodeString(c); err == nil {
		return string(raw)
	}
	return c
}

var kindsC06 = []wk{
	{"login", 26}, {"recstart", 6}, {"recend", 10}, {"updpw", 10}, {"newsess", 8}, {"visit", 8}, {"steal", 2}, {"setcookie", 6},
	{"snip:recover", 12}, {"snip:remember", 10}, {"snip:rmrevoke", 10}, {"logout", 2}, {"advance", 3}, {"lock", 2}, {"unlock", 2},
}

var profC06 = profile{
	must: []string{"auth", "recover"}, may: []string{"remember", "logout", "lock"},
	kinds: kindsC06, minOps: 14, maxOps: 36, accts: [2]int{2, 3}, browsers: [2]int{2, 4}, middlewares: []string{"", "remember", "remember"},
	tweak: func(t *rapid.T, c *harness.Config) {
		c.Setups = nil
		c.RecoverDurS = pick(t, "recdur6", 600, 86400)
		for i := range c.Accounts {
			a := &c.Accounts[i]
			a.Locked, a.Unconfirmed, a.TOTP, a.Phone, a.Recovery = false, false, false, "", 0
			// with the lock module: some owners recover a locked account (its veto takes over the login-after-recovery)
			a.Locked = c.Has("lock") && chance(t, "locked6", 30)
		}
		c.LockAfter, c.LockDurS = 100000, 43200        // only seeded and manual locks
		c.CustomHasher = chance(t, "customhasher", 25) // the documented pluggable Core.Hasher
		if c.Has("remember") && c.Middleware != "remember" && chance(t, "apionly", 30) {
			// an instance without a cookie store (API-only, admin back end) on a database where the
			// front end issued remember tokens: a password change here must revoke them all the same
			c.NoCookieStore = true
			for i := range c.Accounts {
				c.Accounts[i].RmTokens = rapid.IntRange(0, 3).Draw(t, "rmtokens")
			}
		}
	},
}

func TestC06(t *testing.T) {
	s := st("C06")
	s.Rule = "password-change machine: 2-3 accounts, 2-4 browsers holding remember cookies, recover start/end and programmatic UpdatePassword with old/new pairs that are equal, one byte apart, prefixes, 71/72/73/76 bytes, bcrypt-equivalent, NUL-containing and non-ASCII; login-after-recovery on/off, remember loaded or not; " +
		"oracle: model password per account (bcrypt key-stream equivalence), stored hash verifies new and not old, salted, token spent, server-side remember set empty, other accounts untouched, every /login outcome equals the model; non-trivial = a change while >=1 remember cookie is outstanding, or an old-password login after a change; distinct by FNV of the abstract trace"
	p := profC06
	rapid.Check(t, func(rt *rapid.T) {
		cfg := genConfig(rt, p)
		e := genEnv{cfg: cfg, nAcct: len(cfg.Accounts), nBrows: cfg.Browsers}
		ops := genOps(rt, p, e)
		for i := range ops {
			switch ops[i].K {
			case "recend", "updpw":
				ops[i].S = c06PWs[(ops[i].MA+ops[i].SN+len(ops[i].S)+i)%len(c06PWs)]
				if chance(rt, "pwpick", 60) {
					ops[i].S = pick(rt, "pw6", c06PWs...)
				}
			case "login":
				if ops[i].Src == "lit" && chance(rt, "litpw", 70) {
					ops[i].S = pick(rt, "pw6l", c06PWs...)
				}
			}
		}
		c := Case{Cfg: cfg, Ops: ops}
		m, v, err := runCase(c, &monC06{})
		if err != nil {
			rt.Fatalf("world construction failed: %v", err)
		}
		var classes []string
		for f := range m.Flags {
			classes = append(classes, f)
		}
		s.add("steps", m.NStep)
		s.add("skipped", m.NSkip)
		nt := m.Flags["change-with-outstanding-cookie"] || m.Flags["old-password-refused"]
		s.record(nt, m.Trace.h, classes, func() interface{} { return c })
		handle(rt, v, "world:C06", c)
	})
}

func init() {
	replayers["world:C06"] = worldReplayer(func() Monitor { return &monC06{} })
}

var _ = fmt.Sprint
var _ = harness.AppKeys
