package props

import (
	"encoding/json"
	"fmt"
	"sort"
	"strings"
	"testing"
	"time"

	"pgregory.net/rapid"

	"verif/harness"
)

// ---- C16: responses leak neither password correctness when locked nor account existence

type c16Case struct {
	Kind     string         `json:"kind"` // locked-pw | recover-exists | login-exists | otp-exists
	Cfg      harness.Config `json:"cfg"`
	Count    int            `json:"count"`     // stored attempt count of the known account
	LastAgoS int            `json:"last_ago"`  // seconds since its last attempt
	LockInS  int            `json:"lock_in_s"` // lock deadline from now (locked-pw)
	RM       bool           `json:"rm"`
	Redir    string         `json:"redir,omitempty"`
	WrongPW  string         `json:"wrong_pw"`
	Unknown  string         `json:"unknown_pid"`
}

type transcript struct {
	Status  int
	Headers string
	Body    string
	Session string
	Cookies string
}

func mapStr(m map[string]string) string {
	ks := make([]string, 0, len(m))
	for k := range m {
		ks = append(ks, k)
	}
	sort.Strings(ks)
	var sb strings.Builder
	for _, k := range ks {
		fmt.Fprintf(&sb, "%s=%q;", k, m[k])
	}
	return sb.String()
}

func c16Transcript(r *harness.Resp) transcript {
	var hs []string
	for k, vs := range r.Header {
		hs = append(hs, k+": "+strings.Join(vs, "|"))
	}
	sort.Strings(hs)
	return transcript{Status: r.Status, Headers: strings.Join(hs, "\n"), Body: string(r.Body), Session: mapStr(r.SessAfter), Cookies: mapStr(r.CookAfter)}
}

func c16World(c c16Case) (*harness.World, error) {
	w, err := harness.NewWorld(c.Cfg)
	if err != nil {
		return nil, err
	}
	pid := c.Cfg.Accounts[0].PID
	now := time.Now().UTC()
	w.Store.Mutate(pid, func(u *harness.User) {
		u.AttemptCount = c.Count
		u.LastAttempt = now.Add(-time.Duration(c.LastAgoS) * time.Second)
		if c.Kind == "locked-pw" {
			u.Locked = now.Add(time.Duration(c.LockInS) * time.Second)
		} else {
			u.Locked = time.Time{}
		}
		u.Confirmed = true
	})
	return w, nil
}

func c16Run(c c16Case) *Violation {
	wa, err := c16World(c)
	if err != nil {
		return violation("C16", "world", "world construction failed: %v", err)
	}
	defer wa.Close()
	wb, err := c16World(c)
	if err != nil {
		return violation("C16", "world", "world construction failed: %v", err)
	}
	defer wb.Close()
	known := c.Cfg.Accounts[0]
	pidField := "email"
	if c.Cfg.Username {
		pidField = "username"
	}
	mk := func(w *harness.World, route, pid, secret string) harness.Req {
		f := map[string]string{pidField: pid}
		if route != "/recover" {
			f["password"] = secret
			if c.RM {
				f["rm"] = "true"
			}
		}
		q := harness.Req{Method: "POST", Path: w.Path(route), Form: f}
		if c.Redir != "" {
			q.Query = map[string][]string{"redir": {c.Redir}}
		}
		return q
	}
	var ra, rb *harness.Resp
	var what string
	switch c.Kind {
	case "locked-pw":
		ra = wa.Do(mk(wa, "/login", known.PID, known.Password))
		rb = wb.Do(mk(wb, "/login", known.PID, c.WrongPW))
		what = "correct vs incorrect password for a locked account"
	case "recover-exists":
		ra = wa.Do(mk(wa, "/recover", known.PID, ""))
		rb = wb.Do(mk(wb, "/recover", c.Unknown, ""))
		what = "recovery request for an existing vs a non-existing account"
	case "login-exists":
		ra = wa.Do(mk(wa, "/login", known.PID, c.WrongPW))
		rb = wb.Do(mk(wb, "/login", c.Unknown, c.WrongPW))
		what = "failed login for a known vs an unknown account"
	case "otp-exists":
		ra = wa.Do(mk(wa, "/otp/login", known.PID, c.WrongPW))
		rb = wb.Do(mk(wb, "/otp/login", c.Unknown, c.WrongPW))
		what = "failed otp login for a known vs an unknown account"
	}
	ta, tb := c16Transcript(ra), c16Transcript(rb)
	if ta == tb {
		return nil
	}
	field := "status"
	switch {
	case ta.Status != tb.Status:
	case ta.Headers != tb.Headers:
		field = "headers"
	case ta.Body != tb.Body:
		field = "body"
	case ta.Session != tb.Session:
		field = "session"
	default:
		field = "cookies"
	}
	return violation("C16", "observable-difference:"+c.Kind+":"+field, "%s differ in %s:\n  A: %+v\n  B: %+v", what, field, ta, tb)
}

func c16Gen(t *rapid.T) c16Case {
	var c c16Case
	c.Kind = pick(t, "kind", "locked-pw", "locked-pw", "recover-exists", "login-exists", "otp-exists")
	need := map[string][]string{"locked-pw": {"auth", "lock"}, "recover-exists": {"recover"}, "login-exists": {"auth"}, "otp-exists": {"otp"}}[c.Kind]
	var may []string
	for _, mod := range allModules {
		in := false
		for _, n := range need {
			if n == mod {
				in = true
			}
		}
		if !in {
			may = append(may, mod)
		}
	}
	p := profile{must: need, may: may, setups: []string{"totp", "sms", "recovery", "expire"}, accts: [2]int{1, 2}, browsers: [2]int{1, 1},
		middlewares: []string{"", "remember", "expire"}}
	c.Cfg = genConfig(t, p)
	c.Cfg.LockAfter = rapid.IntRange(2, 6).Draw(t, "lockafter16")
	c.RM = chance(t, "rm", 40)
	c.Redir = pick(t, "redir", "", "", "/back/here")
	c.WrongPW = pick(t, "wrongpw", "wrong-Pass1!", "", "x", "Passw0rd!a", "Passw0rd!B")
	if c.Cfg.Username {
		c.Unknown = pick(t, "unknown", "ghost", "userz", "nobody1")
	} else {
		c.Unknown = pick(t, "unknown", "ghost@x.io", "nobody@nowhere.org", "acctz@x.io")
	}
	c.Count = rapid.IntRange(0, c.Cfg.LockAfter+2).Draw(t, "count")
	W := c.Cfg.LockWindowS
	c.LastAgoS = pick(t, "lastago", 1, W/2, W+5, 10*W)
	c.LockInS = pick(t, "lockin", 30, 3600, 200000)
	if c.Kind != "locked-pw" && c.Cfg.Has("lock") {
		// the proviso of (c): the attempt must not lock the account
		if c.LastAgoS <= W && c.Count+1 >= c.Cfg.LockAfter {
			c.Count = 0
		}
		if c.Cfg.LockAfter <= 1 {
			c.Cfg.LockAfter = 3
		}
	}
	c.Cfg.Accounts[0].Locked, c.Cfg.Accounts[0].Unconfirmed = false, false
	return c
}

func TestC16(t *testing.T) {
	s := st("C16")
	s.Rule = "paired worlds built from one generated description (same configuration, module superset and order, account state, random stream): (a) locked+confirmed account, correct vs incorrect password; (b) recover start for an existing vs a non-existing account; (c) /login and /otp/login for an unknown PID vs a known PID with a wrong secret that does not lock it; " +
		"oracle: byte equality of status, all headers, body, session and cookies of the two responses; every pair is non-trivial; distinct by (pair kind, form/JSON, module set, counter/time/2FA class)"
	rapid.Check(t, func(rt *rapid.T) {
		c := c16Gen(rt)
		v := c16Run(c)
		a := c.Cfg.Accounts[0]
		cls := fmt.Sprintf("%s|json=%v|%v|%v|cnt=%d|ago=%d|totp=%v|sms=%v|rm=%v|mw=%s|err500=%v", c.Kind, c.Cfg.JSON, c.Cfg.Modules, c.Cfg.Setups, c.Count, c.LastAgoS, a.TOTP, a.Phone != "", c.RM, c.Cfg.Middleware, c.Cfg.Err500)
		s.record(true, fnv64(cls), []string{"pair:" + c.Kind}, func() interface{} { return c })
		handle(rt, v, "c16", c)
	})
}

func init() {
	replayers["c16"] = func(raw json.RawMessage) (*Violation, error) {
		var c c16Case
		if err := json.Unmarshal(raw, &c); err != nil {
			return nil, err
		}
		return c16Run(c), nil
	}
}
