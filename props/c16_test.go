package props

import (
	"encoding/json"
	"fmt"
	"sort"
	"strings"
	"testing"
	"time"

	"pgregory.net/rapid"

	"verif/harness"
)

// ---- C16: responses leak neither password correctness when locked nor account existence

type c16Case struct {
	Kind     string         `json:"kind"` // locked-pw | recover-exists | login-exists | otp-exists
	Cfg      harness.Config `json:"cfg"`
	Count    int            `json:"count"`     // stored attempt count of the known account
	LastAgoS int            `json:"last_ago"`  // seconds since its last attempt
	LockInS  int            `json:"lock_in_s"` // lock deadline from now (locked-pw)
	RM       bool           `json:"rm"`
	Redir    string         `json:"redir,omitempty"`
	WrongPW  string         `json:"wrong_pw"`
	Unknown  string         `json:"unknown_pid"`
	// Prelude: requests both worlds serve identically before the compared pair
	// (the property holds after any history, not only on a fresh account).
	Prelude []string `json:"prelude,omitempty"`
	// MailFault: the compared request runs with the mail sender ("send") or the mail
	// renderer ("render") failing - in both worlds; only the one with the account has mail to lose.
	MailFault string `json:"mail_fault,omitempty"`
	// KnownPW (login-exists pair): the stored password of the known account is "" normal,
	// "empty" (account created by an OAuth2 sign-in or an invitation) or "garbage" (not a bcrypt hash)
	KnownPW string `json:"known_pw,omitempty"`
	// RedirInBody: the return target travels in the request body (form field / JSON member) instead of the query
	RedirInBody bool `json:"redir_in_body,omitempty"`
	// FaultAt (locked-pw pair): the n-th backend call of the compared request fails - in both
	// worlds. A locked account's login makes the same calls whatever the password is, so a
	// storage blip must not become a password oracle either.
	FaultAt int  `json:"fault_at,omitempty"`
	OddPID  bool `json:"odd_pid,omitempty"` // the known account's identifier (and the stranger's) fails the body reader's form rules
}

var c16PreludeKinds = []string{"rec-known", "rec-known", "rec-unknown", "login-ok", "login-page", "adv1", "adv45", "adv90", "newsess", "half-session", "half-session", "other-session", "otp-used", "otp-used"}

func pidFieldOf(c c16Case) string {
	if c.Cfg.Username {
		return "username"
	}
	return "email"
}

func c16Prelude(w *harness.World, c c16Case, mk func(w *harness.World, route, pid, secret string) harness.Req) {
	known := c.Cfg.Accounts[0]
	otpUsed := false
	// the pair's precondition must survive the prelude: a locked account stays locked
	budget := time.Duration(1<<62 - 1)
	if c.Kind == "locked-pw" {
		budget = time.Duration(c.LockInS-5) * time.Second
	}
	adv := func(d time.Duration) {
		if d <= budget {
			budget -= d
			w.Advance(d)
		}
	}
	for _, k := range c.Prelude {
		switch k {
		case "rec-known":
			if c.Cfg.Has("recover") {
				w.Do(mk(w, "/recover", known.PID, ""))
			}
		case "rec-unknown":
			if c.Cfg.Has("recover") {
				w.Do(mk(w, "/recover", c.Unknown, ""))
			}
		case "login-ok":
			// (an account without a usable hash cannot log in with a password: the request would be a failed attempt)
			if c.Kind != "locked-pw" && c.Cfg.Has("auth") && c.KnownPW == "" {
				w.Do(mk(w, "/login", known.PID, known.Password))
				w.Jars[0].ClearSession()
			}
		case "otp-used":
			// the known account spent one of its one-time passwords earlier - not the first and not the last of the list
			// (once: presenting the spent password again would be a failed attempt of its own and could lock the account,
			// which the compared attempt must not do)
			if !otpUsed && c.Cfg.Has("otp") && len(w.Seeded) > 0 && len(w.Seeded[0].OTPs) >= 3 && !c.Cfg.Accounts[0].TOTP && c.Cfg.Accounts[0].Phone == "" {
				otpUsed = true
				w.Do(harness.Req{Method: "POST", Path: w.Path("/otp/login"), Form: map[string]string{pidFieldOf(c): known.PID, "password": w.Seeded[0].OTPs[1]}})
				w.Jars[0].ClearSession()
			}
		case "half-session", "other-session":
			// the observer is somebody with an ordinary account of their own: logged in as it, or
			// (half-session) brought back by its remember cookie
			if len(c.Cfg.Accounts) >= 2 && c.Cfg.Has("auth") {
				own := c.Cfg.Accounts[1]
				f := map[string]string{pidFieldOf(c): own.PID, "password": own.Password}
				if k == "half-session" {
					f["rm"] = "true"
				}
				w.Do(harness.Req{Method: "POST", Path: w.Path("/login"), Form: f})
				if k == "half-session" && c.Cfg.Has("remember") && c.Cfg.Middleware == "remember" {
					w.Jars[0].ClearSession()
					w.Do(harness.Req{Method: "GET", Path: w.Path("/login")})
				}
			}
		case "login-page":
			if c.Cfg.Has("auth") {
				w.Do(harness.Req{Method: "GET", Path: w.Path("/login")})
			}
		case "adv1":
			adv(time.Second)
		case "adv45":
			adv(45 * time.Second)
		case "adv90":
			adv(90 * time.Second)
		case "newsess":
			w.Jars[0].ClearSession()
		}
	}
}

type transcript struct {
	Status  int
	Headers string
	Body    string
	Session string
	Cookies string
}

func mapStr(m map[string]string) string {
	ks := make([]string, 0, len(m))
	for k := range m {
		ks = append(ks, k)
	}
	sort.Strings(ks)
	var sb strings.Builder
	for _, k := range ks {
		fmt.Fprintf(&sb, "%s=%q;", k, m[k])
	}
	return sb.String()
}

func c16Transcript(r *harness.Resp) transcript {
	var hs []string
	for k, vs := range r.Header {
		hs = append(hs, k+": "+strings.Join(vs, "|"))
	}
	sort.Strings(hs)
	// wall-clock stamps differ between two runs a second apart: only their presence is compared
	sess := map[string]string{}
	for k, v := range r.SessAfter {
		if k == "last_action" || k == "sms_last" {
			v = "<time>"
		}
		sess[k] = v
	}
	return transcript{Status: r.Status, Headers: strings.Join(hs, "\n"), Body: string(r.Body), Session: mapStr(sess), Cookies: mapStr(r.CookAfter)}
}

func c16World(c c16Case) (*harness.World, error) {
	w, err := harness.NewWorld(c.Cfg)
	if err != nil {
		return nil, err
	}
	pid := c.Cfg.Accounts[0].PID
	now := time.Now().UTC()
	w.Store.Mutate(pid, func(u *harness.User) {
		u.AttemptCount = c.Count
		u.LastAttempt = now.Add(-time.Duration(c.LastAgoS) * time.Second)
		if c.Kind == "locked-pw" {
			u.Locked = now.Add(time.Duration(c.LockInS) * time.Second)
		} else if c.Kind == "recover-exists" && c.Cfg.Accounts[0].Locked {
			u.Locked = now.Add(time.Duration(c.LockInS) * time.Second)
		} else {
			u.Locked = time.Time{}
		}
		u.Confirmed = !(c.Kind == "recover-exists" && c.Cfg.Accounts[0].Unconfirmed)
		switch c.KnownPW {
		case "empty":
			u.Password = ""
		case "garbage":
			u.Password = "$2a$04$tooshort"
		}
	})
	return w, nil
}

func c16Run(c c16Case) *Violation {
	known := c.Cfg.Accounts[0]
	pidField := "email"
	if c.Cfg.Username {
		pidField = "username"
	}
	mk := func(w *harness.World, route, pid, secret string) harness.Req {
		f := map[string]string{pidField: pid}
		if route != "/recover" {
			f["password"] = secret
			if c.RM {
				f["rm"] = "true"
			}
		}
		q := harness.Req{Method: "POST", Path: w.Path(route), Form: f}
		if c.Redir != "" && c.RedirInBody {
			f["redir"] = c.Redir
		} else if c.Redir != "" {
			q.Query = map[string][]string{"redir": {c.Redir}}
		}
		return q
	}
	var what string
	// The two worlds run one after the other: each construction re-seeds the
	// process-wide random source, so both see the same random stream.
	side := func(first bool) (transcript, error) {
		w, err := c16World(c)
		if err != nil {
			return transcript{}, err
		}
		defer w.Close()
		c16Prelude(w, c, mk)
		var r *harness.Resp
		do := func(q harness.Req) *harness.Resp {
			switch c.MailFault {
			case "send":
				w.Mail.Fail = true
			case "render":
				q.Fault = harness.FaultPlan{Name: "MailRender", Kind: "generic"}
			}
			if c.FaultAt > 0 && c.Kind == "locked-pw" {
				q.Fault = harness.FaultPlan{At: c.FaultAt, Kind: "generic"}
			}
			return w.Do(q)
		}
		switch c.Kind {
		case "locked-pw":
			what = "correct vs incorrect password for a locked account"
			if first {
				r = do(mk(w, "/login", known.PID, known.Password))
			} else {
				r = do(mk(w, "/login", known.PID, c.WrongPW))
			}
		case "recover-exists":
			what = "recovery request for an existing vs a non-existing account"
			if first {
				r = do(mk(w, "/recover", known.PID, ""))
			} else {
				r = do(mk(w, "/recover", c.Unknown, ""))
			}
		case "login-exists":
			what = "failed login for a known vs an unknown account"
			if first {
				r = do(mk(w, "/login", known.PID, c.WrongPW))
			} else {
				r = do(mk(w, "/login", c.Unknown, c.WrongPW))
			}
		case "otp-exists":
			what = "failed otp login for a known vs an unknown account"
			if first {
				r = do(mk(w, "/otp/login", known.PID, c.WrongPW))
			} else {
				r = do(mk(w, "/otp/login", c.Unknown, c.WrongPW))
			}
		default:
			return transcript{}, fmt.Errorf("unknown pair kind %q", c.Kind)
		}
		return c16Transcript(r), nil
	}
	ta, err := side(true)
	if err != nil {
		return violation("C16", "world", "world construction failed: %v", err)
	}
	tb, err := side(false)
	if err != nil {
		return violation("C16", "world", "world construction failed: %v", err)
	}
	if ta == tb {
		return nil
	}
	field := "status"
	switch {
	case ta.Status != tb.Status:
	case ta.Headers != tb.Headers:
		field = "headers"
	case ta.Body != tb.Body:
		field = "body"
	case ta.Session != tb.Session:
		field = "session"
	default:
		field = "cookies"
	}
	return violation("C16", "observable-difference:"+c.Kind+":"+field, "%s differ in %s:\n  A: %+v\n  B: %+v", what, field, ta, tb)
}

func c16Gen(t *rapid.T) c16Case {
	var c c16Case
	c.Kind = pick(t, "kind", "locked-pw", "locked-pw", "recover-exists", "login-exists", "otp-exists")
	need := map[string][]string{"locked-pw": {"auth", "lock"}, "recover-exists": {"recover"}, "login-exists": {"auth"}, "otp-exists": {"otp"}}[c.Kind]
	var may []string
	for _, mod := range allModules {
		in := false
		for _, n := range need {
			if n == mod {
				in = true
			}
		}
		if !in {
			may = append(may, mod)
		}
	}
	p := profile{must: need, may: may, setups: []string{"totp", "sms", "recovery", "expire"}, accts: [2]int{1, 2}, browsers: [2]int{1, 1},
		middlewares: []string{"", "remember", "expire"}}
	c.Cfg = genConfig(t, p)
	c.Cfg.LockAfter = rapid.IntRange(2, 6).Draw(t, "lockafter16")
	c.RM = chance(t, "rm", 40)
	c.Redir = pick(t, "redir", "", "", "/back/here")
	c.RedirInBody = c.Redir != "" && chance(t, "redirinbody", 50)
	c.WrongPW = pick(t, "wrongpw", "wrong-Pass1!", "", "x", "Passw0rd!a", "Passw0rd!B",
		// lengths around what bcrypt can hash (72 bytes) and far beyond: comparing accepts any length, hashing does not
		strings.Repeat("Aa1!", 18), strings.Repeat("Aa1!", 18)+"x", strings.Repeat("Aa1!", 25), strings.Repeat("Zz9#", 300))
	if c.Cfg.Username {
		c.Unknown = pick(t, "unknown", "ghost", "userz", "nobody1")
	} else {
		c.Unknown = pick(t, "unknown", "ghost@x.io", "nobody@nowhere.org", "acctz@x.io")
	}
	if c.Kind != "locked-pw" && chance(t, "oddpid", 15) {
		// an account created outside the sign-up form (seeded, migrated) whose identifier the
		// form rules of the shipped body reader would not accept - and a stranger of the same shape
		if c.Cfg.Username {
			c.Cfg.Accounts[0].PID, c.Unknown = pick(t, "oddname", "12345", "007"), "67890"
		} else {
			c.Cfg.Accounts[0].PID, c.Unknown = pick(t, "oddmail", "root@localhost", "admin"), pick(t, "oddunknown", "nobody@localhost", "operator")
		}
		c.Cfg.Accounts[0].Email = ""
		c.OddPID = true
	}
	c.Count = rapid.IntRange(0, c.Cfg.LockAfter+2).Draw(t, "count")
	W := c.Cfg.LockWindowS
	c.LastAgoS = pick(t, "lastago", 1, W/2, W+5, 10*W)
	c.LockInS = pick(t, "lockin", 30, 3600, 200000)
	if c.Kind != "locked-pw" && c.Cfg.Has("lock") {
		// the proviso of (c): the attempt must not lock the account
		if c.LastAgoS <= W && c.Count+1 >= c.Cfg.LockAfter {
			c.Count = 0
		}
		if c.Cfg.LockAfter <= 1 {
			c.Cfg.LockAfter = 3
		}
	}
	c.Cfg.Accounts[0].Locked, c.Cfg.Accounts[0].Unconfirmed = false, false
	if c.Kind == "recover-exists" {
		// (b) holds whatever state the existing account is in: locked (by failures or by the application's
		// lock.Lock), not yet confirmed - a recovery request for it answers like one for nobody
		c.Cfg.Accounts[0].Locked = c.Cfg.Has("lock") && chance(t, "reclocked", 35)
		c.Cfg.Accounts[0].Unconfirmed = c.Cfg.Has("confirm") && chance(t, "recunconfirmed", 25)
	}
	if c.Kind == "login-exists" {
		c.KnownPW = pick(t, "knownpw", "", "", "", "empty", "garbage")
	}
	if c.Kind == "recover-exists" && c.Cfg.Mailer == "" {
		c.MailFault = pick(t, "mailfault", "", "", "send", "render")
	}
	if c.Kind == "locked-pw" && chance(t, "storagefault", 30) {
		c.FaultAt = rapid.IntRange(1, 4).Draw(t, "faultat")
	}
	if chance(t, "prelude", 55) {
		c.Prelude = rapid.SliceOfN(rapid.SampledFrom(c16PreludeKinds), 1, 4).Draw(t, "preludeops")
		// a prelude login refreshes the last-attempt stamp (and, for a 2FA account, leaves
		// the count alone): keep the proviso of (c) - the compared attempt must not lock
		if c.Kind != "locked-pw" && c.Cfg.Has("lock") && contains(c.Prelude, "login-ok") && c.Count+1 >= c.Cfg.LockAfter {
			c.Count = 0
		}
	}
	return c
}

func TestC16(t *testing.T) {
	s := st("C16")
	s.Rule = "paired worlds built from one generated description (same configuration, module superset and order, account state, random stream): (a) locked+confirmed account, correct vs incorrect password; (b) recover start for an existing vs a non-existing account; (c) /login and /otp/login for an unknown PID vs a known PID with a wrong secret that does not lock it; " +
		"oracle: byte equality of status, all headers, body, session and cookies of the two responses; every pair is non-trivial; distinct by (pair kind, form/JSON, module set, counter/time/2FA class)"
	rapid.Check(t, func(rt *rapid.T) {
		c := c16Gen(rt)
		v := c16Run(c)
		a := c.Cfg.Accounts[0]
		cls := fmt.Sprintf("%s|json=%v|%v|%v|cnt=%d|ago=%d|totp=%v|sms=%v|rm=%v|mw=%s|err500=%v", c.Kind, c.Cfg.JSON, c.Cfg.Modules, c.Cfg.Setups, c.Count, c.LastAgoS, a.TOTP, a.Phone != "", c.RM, c.Cfg.Middleware, c.Cfg.Err500) + "|" + strings.Join(c.Prelude, ",") + "|" + c.MailFault + "|" + c.KnownPW + fmt.Sprint(c.RedirInBody, c.FaultAt, c.OddPID)
		classes := []string{"pair:" + c.Kind}
		if len(c.Prelude) > 0 {
			classes = append(classes, "with-prelude")
		}
		if c.FaultAt > 0 {
			classes = append(classes, "storage-fault")
		}
		if c.MailFault != "" {
			classes = append(classes, "mail-fault:"+c.MailFault)
		}
		s.record(true, fnv64(cls), classes, func() interface{} { return c })
		handle(rt, v, "c16", c)
	})
}

func init() {
	replayers["c16"] = func(raw json.RawMessage) (*Violation, error) {
		var c c16Case
		if err := json.Unmarshal(raw, &c); err != nil {
			return nil, err
		}
		return c16Run(c), nil
	}
}
