package props

import (
	"bytes"
	"context"
	"encoding/base64"
	"fmt"
	"net/url"
	"strings"
	"testing"
	"time"

	"github.com/volatiletech/authboss/v3"
	"pgregory.net/rapid"

	"verif/harness"
)

// ---- C05: confirm and recovery links work once, only for their account and unmodified

type outTok struct {
	raw []byte
	at  time.Duration // virtual issue time
}

type monC05 struct {
	cnf, rec     map[string]*outTok // pid -> outstanding token
	seenC, seenR map[string]int     // how many mailed tokens of each account were already folded into the model
}

func (c *monC05) Init(m *Machine) {
	c.cnf, c.rec = map[string]*outTok{}, map[string]*outTok{}
	c.seenC, c.seenR = map[string]int{}, map[string]int{}
}

// absorb folds newly mailed tokens into the model (latest issued wins).
func (c *monC05) absorb(m *Machine) {
	for _, a := range m.KB.Accts {
		for i := c.seenC[a.PID]; i < len(a.CnfToks); i++ {
			if raw, err := base64.URLEncoding.DecodeString(a.CnfToks[i].Token); err == nil {
				c.cnf[a.PID] = &outTok{raw: raw, at: a.CnfToks[i].At}
			}
		}
		c.seenC[a.PID] = len(a.CnfToks)
		for i := c.seenR[a.PID]; i < len(a.RecToks); i++ {
			if raw, err := base64.URLEncoding.DecodeString(a.RecToks[i].Token); err == nil {
				c.rec[a.PID] = &outTok{raw: raw, at: a.RecToks[i].At}
			}
		}
		c.seenR[a.PID] = len(a.RecToks)
	}
}

// usersEqual compares every user record (the remember-token table is left out:
// the remember middleware legitimately rotates a token on any request).
func usersEqual(a, b harness.Snap) bool {
	return snapEqual(harness.Snap{Users: a.Users}, harness.Snap{Users: b.Users})
}

func pwPolicyOK(pw string) bool {
	for _, g := range goodPWs {
		if g == pw {
			return true
		}
	}
	return false
}

func allowedFields(pre, post harness.User, allowed ...string) []string {
	var bad []string
	chk := func(name string, same bool) {
		if same {
			return
		}
		for _, a := range allowed {
			if a == name {
				return
			}
		}
		bad = append(bad, name)
	}
	chk("PID", pre.PID == post.PID)
	chk("Email", pre.Email == post.Email)
	chk("Password", pre.Password == post.Password)
	chk("Confirmed", pre.Confirmed == post.Confirmed)
	chk("ConfirmSelector", pre.ConfirmSelector == post.ConfirmSelector)
	chk("ConfirmVerifier", pre.ConfirmVerifier == post.ConfirmVerifier)
	chk("AttemptCount", pre.AttemptCount == post.AttemptCount)
	chk("LastAttempt", pre.LastAttempt.Equal(post.LastAttempt))
	chk("Locked", pre.Locked.Equal(post.Locked))
	chk("RecoverSelector", pre.RecoverSelector == post.RecoverSelector)
	chk("RecoverVerifier", pre.RecoverVerifier == post.RecoverVerifier)
	chk("RecoverExpiry", pre.RecoverExpiry.Equal(post.RecoverExpiry))
	chk("Arbitrary", fmt.Sprint(pre.Arbitrary) == fmt.Sprint(post.Arbitrary))
	chk("OAuth2", pre.OAuth2UID == post.OAuth2UID && pre.OAuth2Provider == post.OAuth2Provider && pre.OAuth2AccessToken == post.OAuth2AccessToken)
	chk("OTPs", pre.OTPs == post.OTPs)
	chk("TOTPSecretKey", pre.TOTPSecretKey == post.TOTPSecretKey)
	chk("TOTPLastCode", pre.TOTPLastCode == post.TOTPLastCode)
	chk("SMSPhone", pre.SMSPhone == post.SMSPhone)
	chk("RecoveryCodes", pre.RecoveryCodes == post.RecoveryCodes)
	return bad
}

func (c *monC05) After(m *Machine, s *Step) *Violation {
	defer c.absorb(m)
	if s.Resp == nil {
		return nil
	}
	op, r := s.Op, s.Resp
	if op.K == "recget" {
		// opening the link shows a form; it neither spends nor refreshes anything
		if !usersEqual(s.Pre, s.Post) {
			return violation("C05", "opening-the-link-changed-storage", "GET recover/end with a %s/%s token changed storage: %v", op.Src, op.Mut, snapDiff(s.Pre, s.Post))
		}
		m.flag("link-opened")
		return nil
	}
	if op.K != "confirm" && op.K != "recend" {
		return nil
	}
	raw, derr := base64.URLEncoding.DecodeString(s.Secret)
	cls := op.Src + "/" + op.Mut
	table := c.cnf
	if op.K == "recend" {
		table = c.rec
	}
	owner := ""
	if derr == nil {
		for pid, t := range table {
			if t != nil && bytes.Equal(t.raw, raw) {
				owner = pid
			}
		}
	}
	expectAccept := owner != ""
	if expectAccept && op.K == "recend" {
		age := s.VClock - table[owner].at
		dur := time.Duration(m.C.Cfg.RecoverDurS) * time.Second
		switch {
		case age > dur+2*time.Second:
			expectAccept = false
			m.flag("expired")
		case age > dur-2*time.Second:
			// too close to the deadline to call: if the request spent the token it is gone,
			// otherwise it is still outstanding (and may be judged when it is clearly late)
			st("C05").add("inconclusive", 1)
			if !usersEqual(s.Pre, s.Post) {
				delete(table, owner)
			}
			return nil
		}
		if !pwPolicyOK(op.S) {
			// validation fails before the token is looked at: nothing may change, token stays usable
			expectAccept = false
			owner = ""
			m.flag("policy-rejected-with-valid-token")
		}
	}
	if !expectAccept {
		if !usersEqual(s.Pre, s.Post) {
			return violation("C05", "rejected-token-changed-storage:"+op.K+":"+cls, "%s with token class %s (must be rejected) changed storage: %v", op.K, cls, snapDiff(s.Pre, s.Post))
		}
		if op.K == "recend" && r.UID() != r.UIDBefore() && m.rotationOwner(s) != r.UID() {
			return violation("C05", "rejected-token-logged-in:"+cls, "recover end with token class %s (must be rejected) changed the session user to %q", cls, r.UID())
		}
		if op.Mut != "" || op.SA != op.A || strings.HasSuffix(op.Src, "sel") || strings.HasSuffix(op.Src, "ver") || strings.HasSuffix(op.Src, "raw") || strings.HasPrefix(op.Src, "splice") || op.SN > 0 {
			m.flag("near-miss-rejected")
		}
		return nil
	}
	// the outstanding, unexpired token of `owner`. The exact mailed string must be
	// honoured; another spelling of the same bytes (non-canonical trailing bits,
	// embedded CR/LF) counts as the same token, so it may be honoured (and is then
	// spent) or refused (then nothing may change) - the statement's "only if".
	exact := s.Secret == base64.URLEncoding.EncodeToString(raw)
	if r.Fired != "" && usersEqual(s.Pre, s.Post) {
		// a backend call failed before anything was saved: the token was not
		// honoured, so the response may not say it was, and it stays outstanding
		m.flag("fault-before-save")
		okLoc := "/ok/confirm"
		if op.K == "recend" {
			okLoc = "/ok/recover"
		}
		if strings.HasPrefix(r.Location, okLoc) || (r.UID() != r.UIDBefore() && r.UID() != "" && m.rotationOwner(s) != r.UID()) {
			return violation("C05", "honoured-without-being-spent:"+op.K, "%s of %q's outstanding token reported success (location %q, session %q -> %q) although backend call %s failed and nothing was saved: the token is still usable", op.K, owner, r.Location, r.UIDBefore(), r.UID(), r.Fired)
		}
		return nil
	}
	if !exact && usersEqual(s.Pre, s.Post) && (r.UID() == r.UIDBefore() || m.rotationOwner(s) == r.UID()) {
		m.flag("alternative-spelling-refused")
		return nil
	}
	pre, post := s.Pre.Users[owner], s.Post.Users[owner]
	if op.K == "confirm" {
		if !post.Confirmed || post.ConfirmSelector != "" || post.ConfirmVerifier != "" {
			return violation("C05", "genuine-token-refused:confirm:"+cls, "the outstanding confirm token of %q (spelling %s) was not honoured: confirmed=%v selector=%q (status %d loc %q err %v)", owner, cls, post.Confirmed, post.ConfirmSelector, r.Status, r.Location, r.Rec.HandlerErr)
		}
		if bad := allowedFields(pre, post, "Confirmed", "ConfirmSelector", "ConfirmVerifier"); len(bad) > 0 {
			return violation("C05", "confirm-changed-other-fields", "confirming %q also changed %v", owner, bad)
		}
	} else {
		if !bcryptOK(post.Password, op.S) || post.RecoverSelector != "" || post.RecoverVerifier != "" {
			return violation("C05", "genuine-token-refused:recover:"+cls, "the outstanding recover token of %q (spelling %s) was not honoured: new password verifies=%v selector=%q (status %d err %v)", owner, cls, bcryptOK(post.Password, op.S), post.RecoverSelector, r.Status, r.Rec.HandlerErr)
		}
		if bad := allowedFields(pre, post, "Password", "RecoverSelector", "RecoverVerifier", "RecoverExpiry"); len(bad) > 0 {
			return violation("C05", "recover-changed-other-fields", "recovering %q also changed %v", owner, bad)
		}
	}
	for pid, pu := range s.Pre.Users {
		if pid != owner && !userEqual(pu, s.Post.Users[pid]) {
			return violation("C05", "token-affected-other-account:"+op.K, "%s with %q's token changed account %q", op.K, owner, pid)
		}
	}
	delete(table, owner)
	m.flag("accepted:" + op.K)
	if cls != "rectok/" && cls != "cnftok/" {
		m.flag("accepted-alternative-spelling")
	}
	return nil
}

// End: every genuine outstanding token must still work.
func (c *monC05) End(m *Machine) *Violation {
	c.absorb(m)
	for pid, t := range c.cnf {
		if t == nil || !m.C.Cfg.Has("confirm") {
			continue
		}
		if _, ok := m.W.Store.Snapshot().Users[pid]; !ok {
			continue
		}
		q := m.tokenReq(0, "/confirm", "cnf", base64.URLEncoding.EncodeToString(t.raw))
		m.W.Do(q)
		if u := m.W.Store.Peek(pid); u == nil || !u.Confirmed {
			return violation("C05", "outstanding-token-dead:confirm", "at the end of the history the genuine outstanding confirm token of %q no longer works", pid)
		}
		m.flag("final-sweep")
	}
	dur := time.Duration(m.C.Cfg.RecoverDurS) * time.Second
	for pid, t := range c.rec {
		if t == nil || !m.C.Cfg.Has("recover") || m.W.VClock-t.at > dur-2*time.Second {
			continue
		}
		tok := base64.URLEncoding.EncodeToString(t.raw)
		m.W.Do(harness.Req{Browser: 0, Method: "POST", Path: m.W.Path("/recover/end"), Form: map[string]string{"token": tok, "password": "Sw33p-Final!", "confirm_password": "Sw33p-Final!"}})
		if u := m.W.Store.Peek(pid); u == nil || !bcryptOK(u.Password, "Sw33p-Final!") {
			return violation("C05", "outstanding-token-dead:recover", "at the end of the history the genuine outstanding recover token of %q no longer works", pid)
		}
		m.flag("final-sweep")
	}
	return nil
}

var kindsC05 = []wk{
	{"confirm", 22}, {"recend", 24}, {"recget", 8}, {"recstart", 12}, {"reconfirm", 8}, {"register", 5}, {"advance", 8}, {"login", 4},
	{"snip:recover", 10}, {"snip:register", 8}, {"newsess", 1},
}

var profC05 = profile{
	must: []string{"confirm", "recover", "register"}, may: []string{"auth", "remember", "logout"},
	kinds: kindsC05, minOps: 14, maxOps: 34, accts: [2]int{2, 3}, browsers: [2]int{1, 2}, middlewares: []string{"", "remember"},
	// faults only in the token-consuming requests: a fault in an issuing request
	// would leave the model not knowing which token is outstanding
	faultPct: 12, faultOps: []string{"confirm", "recend"},
	tweak: func(t *rapid.T, c *harness.Config) {
		c.Setups = nil
		c.RecoverDurS = pick(t, "recdur5", 30, 600, 86400)
		for i := range c.Accounts {
			c.Accounts[i].Locked = false
			c.Accounts[i].TOTP, c.Accounts[i].Phone, c.Accounts[i].Recovery = false, "", 0
		}
	},
}

func TestC05(t *testing.T) {
	s := st("C05")
	s.Rule = "token machine: issue / re-issue / use of confirm and recover tokens over 2-3 accounts with candidates from: exact, alternative base64 spellings, every single-bit flip, length edits, cross-account splices, stored selector/verifier values, used, superseded, expired, random; " +
		"oracle: accept iff the stdlib-decoded bytes equal the model's outstanding token, otherwise the full store snapshot is unchanged; final sweep submits every outstanding token; non-trivial = >=1 near-miss rejection and >=1 acceptance; distinct by FNV of the abstract trace"
	p := profC05
	rapid.Check(t, func(rt *rapid.T) {
		cfg := genConfig(rt, p)
		e := genEnv{cfg: cfg, nAcct: len(cfg.Accounts), nBrows: cfg.Browsers}
		ops := genOps(rt, p, e)
		for i := range ops {
			if contains(p.faultOps, ops[i].K) && chance(rt, "fault5", p.faultPct) {
				ops[i].FA = pick(rt, "faultat5", 1, 2, 2, 3, 3, 4, 5, 6)
				ops[i].FK = "generic"
			}
		}
		d := cfg.RecoverDurS
		gaps := []int{1, 5, d / 2, d - 3, d + 3, 2 * d}
		for i := range ops {
			if ops[i].K == "advance" {
				ops[i].N = gaps[ops[i].N%len(gaps)]
			}
		}
		// prelude: most accounts start with outstanding tokens, so candidates resolve
		var pre []Op
		for i := range cfg.Accounts {
			if chance(rt, "pre-rec", 70) {
				pre = append(pre, Op{K: "recstart", A: i})
			}
			if chance(rt, "pre-cnf", 60) {
				pre = append(pre, Op{K: "reconfirm", A: i})
			}
		}
		ops = append(pre, ops...)
		c := Case{Cfg: cfg, Ops: ops}
		m, v, err := runCase(c, &monC05{})
		if err != nil {
			rt.Fatalf("world construction failed: %v", err)
		}
		var classes []string
		for f := range m.Flags {
			classes = append(classes, f)
		}
		s.add("steps", m.NStep)
		s.add("skipped", m.NSkip)
		nt := m.Flags["near-miss-rejected"] && (m.Flags["accepted:confirm"] || m.Flags["accepted:recend"])
		s.record(nt, m.Trace.h, classes, func() interface{} { return c })
		handle(rt, v, "world:C05", c)
	})
}

// FuzzC05 feeds raw token strings to one fixed world holding outstanding
// confirm and recover tokens for two accounts.
func FuzzC05(f *testing.F) {
	cfg := harness.Config{Seed: 77, Modules: []string{"auth", "confirm", "recover", "register"}, Mount: "/auth", Browsers: 1,
		Accounts: []harness.AccountSpec{{PID: "accta@x.io", Password: "Passw0rd!A"}, {PID: "acctb@x.io", Password: "Passw0rd!B"}}}
	w, err := harness.NewWorld(cfg)
	if err != nil {
		f.Fatal(err)
	}
	var toks []string
	for _, a := range cfg.Accounts {
		u, _ := w.Store.Load(context.Background(), a.PID)
		n := w.Mail.Len()
		_ = w.Confirm.StartConfirmation(context.Background(), u.(authboss.ConfirmableUser), true)
		w.Do(harness.Req{Method: "POST", Path: w.Path("/recover"), Form: map[string]string{"email": a.PID}})
		for _, ml := range w.Mail.Since(n) {
			toks = append(toks, ml.Token)
		}
	}
	if len(toks) != 4 {
		f.Fatalf("expected 4 tokens, got %d", len(toks))
	}
	base := w.Store.Snapshot()
	restore := func() {
		for _, u := range base.Users {
			uu := u
			w.Store.Seed(&uu)
		}
	}
	raws := map[string]bool{}
	for _, t := range toks {
		f.Add(t)
		f.Add(t + ".")
		f.Add(strings.TrimRight(t, "="))
		f.Add(t[:43] + toks[(len(t)+1)%4][43:])
		b, _ := base64.URLEncoding.DecodeString(t)
		raws[string(b)] = true
	}
	for _, u := range base.Users {
		f.Add(u.ConfirmSelector)
		f.Add(u.RecoverVerifier)
	}
	f.Add("")
	f.Fuzz(func(t *testing.T, tok string) {
		defer restore()
		raw, derr := base64.URLEncoding.DecodeString(tok)
		genuine := derr == nil && raws[string(raw)]
		for _, kind := range []string{"confirm", "recend"} {
			pre := w.Store.Snapshot()
			if kind == "confirm" {
				w.Do(harness.Req{Method: "GET", Path: w.Path("/confirm"), Query: url.Values{"cnf": {tok}}})
			} else {
				w.Do(harness.Req{Method: "POST", Path: w.Path("/recover/end"), Form: map[string]string{"token": tok, "password": "Passw0rd!Z", "confirm_password": "Passw0rd!Z"}})
			}
			post := w.Store.Snapshot()
			if !genuine && !snapEqual(pre, post) {
				v := violation("C05", "rejected-token-changed-storage:"+kind+":fuzz", "token %q (not a genuine token) changed storage: %v", tok, snapDiff(pre, post))
				if isKnown(v.Prop, v.Sig) {
					continue
				}
				saveFailure(v, "c05fuzz", tok)
				t.Fatalf("VIOLATION %s", v.Error())
			}
		}
	})
}

func init() {
	replayers["world:C05"] = worldReplayer(func() Monitor { return &monC05{} })
}
