package props

import (
	"encoding/json"
	"fmt"
	"net/url"
	"regexp"
	"strings"
	"testing"

	"pgregory.net/rapid"

	"verif/harness"
)

// ---- C17 through the shipped mailers: a mailed token leaves only in the mail addressed to its account
//
// TestC17 reads mails from the harness mailbox (the library hands it one authboss.Email per mail).
// Here the shipped SMTPMailer / LogMailer do the rendering and sending, some deliveries are refused
// by the mail server (a bouncing domain), and the messages are read where they arrive.

type c17sCase struct {
	Cfg   harness.Config `json:"cfg"`
	Order []int          `json:"order"` // account indices whose recovery is requested, in order
}

var c17sTokRe = regexp.MustCompile(`token=([A-Za-z0-9_\-]+(?:%3D|=)*)`)

func c17sRun(c c17sCase) *Violation {
	w, err := harness.NewWorld(c.Cfg)
	if err != nil {
		st("C17").add("inconclusive", 1)
		return nil
	}
	defer w.Close()
	for _, a := range c.Order {
		acc := c.Cfg.Accounts[a%len(c.Cfg.Accounts)]
		w.Do(harness.Req{Method: "POST", Path: w.Path("/recover"), Form: map[string]string{"email": acc.PID}})
	}
	var msgs, envs []string
	switch c.Cfg.Mailer {
	case "smtp":
		msgs, envs = w.SMTPMessages(), w.SMTPEnvelopes()
	case "log":
		msgs = w.MailBuf.Messages()
	}
	users := w.Store.Snapshot().Users
	for mi, msg := range msgs {
		for _, mt := range c17sTokRe.FindAllStringSubmatch(msg, -1) {
			tok, err := url.QueryUnescape(mt[1])
			if err != nil {
				continue
			}
			sel := selectorOf(tok)
			if sel == "" {
				continue
			}
			for pid, u := range users {
				if u.RecoverSelector != sel {
					continue
				}
				addressed := strings.Contains(msg, "To: "+u.Email)
				if mi < len(envs) {
					// over SMTP the envelope decides where the message goes, whatever its text says
					addressed = false
					for _, rc := range strings.Split(envs[mi], ",") {
						addressed = addressed || rc == strings.ToLower(u.Email)
					}
				}
				if !addressed {
					to := ""
					for _, line := range strings.Split(msg, "\n") {
						if strings.HasPrefix(line, "To: ") {
							to = strings.TrimSpace(line)
						}
					}
					return violation("C17", "token-in-message-for-another-address:"+c.Cfg.Mailer, "the live recover token of %q (%s) is in a message addressed %q (envelope %v)", pid, u.Email, to, envAt(envs, mi))
				}
			}
		}
	}
	return nil
}

func c17sGen(t *rapid.T) c17sCase {
	var c c17sCase
	c.Cfg = harness.Config{Seed: rapid.Uint64Range(1, 1<<32).Draw(t, "seed"), Modules: []string{"auth", "recover"}, Mount: pick(t, "mount", "/auth", ""), JSON: chance(t, "json", 50),
		Browsers: 1, Mailer: pick(t, "mailer", "smtp", "smtp", "log"), MailGo: false, RecoverDurS: 3600, Err500: chance(t, "err500", 50)}
	n := rapid.IntRange(2, 4).Draw(t, "naccts")
	for i := 0; i < n; i++ {
		dom := "x.io"
		if chance(t, "bounces", 40) {
			dom = "refuse.x.io" // the mail server refuses this recipient (550 at RCPT)
		}
		c.Cfg.Accounts = append(c.Cfg.Accounts, harness.AccountSpec{PID: fmt.Sprintf("m%d@%s", i, dom), Password: goodPWs[i%4]})
	}
	c.Order = rapid.SliceOfN(rapid.IntRange(0, n-1), 2, 8).Draw(t, "order")
	return c
}

func TestC17SMTP(t *testing.T) {
	s := st("C17")
	s.Rule = "shipped mailers: 2-8 recovery requests over 2-4 accounts, some of whose addresses the loopback mail server refuses, sent by defaults.SMTPMailer / LogMailer; " +
		"oracle: every recover token found in a delivered message belongs (by its selector in storage) to the account the message is addressed to; non-trivial = >=1 refused delivery followed by another mail"
	rapid.Check(t, func(rt *rapid.T) {
		c := c17sGen(rt)
		v := c17sRun(c)
		bounceThenMail := false
		seenBounce := false
		for _, a := range c.Order {
			if strings.Contains(c.Cfg.Accounts[a%len(c.Cfg.Accounts)].PID, "@refuse.") {
				seenBounce = true
			} else if seenBounce {
				bounceThenMail = true
			}
		}
		s.record(bounceThenMail, fnv64(fmt.Sprint(c.Order), c.Cfg.Mailer, fmt.Sprint(len(c.Cfg.Accounts), c.Cfg.JSON)), []string{"shipped-mailer:" + c.Cfg.Mailer}, func() interface{} { return c })
		handle(rt, v, "c17s", c)
	})
}

func init() {
	replayers["c17s"] = func(raw json.RawMessage) (*Violation, error) {
		var c c17sCase
		if err := json.Unmarshal(raw, &c); err != nil {
			return nil, err
		}
		return c17sRun(c), nil
	}
}

func envAt(envs []string, i int) string {
	if i < len(envs) {
		return envs[i]
	}
	return ""
}
