package props

import (
	"encoding/json"
	"fmt"
	"hash/fnv"
	"os"
	"path/filepath"
	"sort"
	"strconv"
	"strings"
	"sync"
	"testing"
)

// ---- statistics dumped for the driver -------------------------------------

type propStats struct {
	Evaluations   int                    `json:"evaluations"`
	Nontrivial    int                    `json:"nontrivial"`
	FPs           []string               `json:"fps"`
	Classes       map[string]int         `json:"classes"`
	Samples       []interface{}          `json:"samples"`
	Inconclusive  int                    `json:"inconclusive"`
	ExcludedKnown map[string]int         `json:"excluded_known"`
	SkippedOps    int                    `json:"skipped_ops"`
	Steps         int                    `json:"steps"`
	Rule          string                 `json:"rule"`
	Exhaustive    bool                   `json:"exhaustive"`
	Extra         map[string]interface{} `json:"extra,omitempty"`

	fps map[uint64]struct{}
}

var (
	statsMu  sync.Mutex
	allStats = map[string]*propStats{}
)

func st(prop string) *propStats {
	statsMu.Lock()
	defer statsMu.Unlock()
	s, ok := allStats[prop]
	if !ok {
		s = &propStats{Classes: map[string]int{}, ExcludedKnown: map[string]int{}, fps: map[uint64]struct{}{}, Extra: map[string]interface{}{}}
		allStats[prop] = s
	}
	return s
}

const maxSamples = 6

// record one evaluated case.
func (s *propStats) record(nontrivial bool, fp uint64, classes []string, sample func() interface{}) {
	statsMu.Lock()
	defer statsMu.Unlock()
	s.Evaluations++
	for _, c := range classes {
		s.Classes[c]++
	}
	if nontrivial {
		s.Nontrivial++
		if len(s.fps) < 4_000_000 {
			if _, seen := s.fps[fp]; !seen {
				s.fps[fp] = struct{}{}
				if len(s.Samples) < maxSamples && sample != nil {
					s.Samples = append(s.Samples, sample())
				}
			}
		}
	}
}

func (s *propStats) add(field string, n int) {
	statsMu.Lock()
	defer statsMu.Unlock()
	switch field {
	case "inconclusive":
		s.Inconclusive += n
	case "skipped":
		s.SkippedOps += n
	case "steps":
		s.Steps += n
	default:
		s.Classes[field] += n
	}
}

func (s *propStats) known(sig string) {
	statsMu.Lock()
	s.ExcludedKnown[sig]++
	statsMu.Unlock()
}

func fnv64(parts ...string) uint64 {
	h := fnv.New64a()
	for _, p := range parts {
		h.Write([]byte(p))
		h.Write([]byte{0})
	}
	return h.Sum64()
}

type fper struct{ h uint64 }

func newFP() *fper { return &fper{h: 14695981039346656037} }
func (f *fper) add(parts ...string) {
	for _, p := range parts {
		for i := 0; i < len(p); i++ {
			f.h ^= uint64(p[i])
			f.h *= 1099511628211
		}
		f.h ^= 0xff
		f.h *= 1099511628211
	}
}

func dumpStats() {
	path := os.Getenv("VERIF_STATS")
	if path == "" {
		return
	}
	statsMu.Lock()
	defer statsMu.Unlock()
	for _, s := range allStats {
		s.FPs = s.FPs[:0]
		for fp := range s.fps {
			s.FPs = append(s.FPs, strconv.FormatUint(fp, 16))
		}
		sort.Strings(s.FPs)
	}
	b, err := json.Marshal(allStats)
	if err == nil {
		_ = os.WriteFile(path, b, 0o644)
	}
}

// ---- known findings -----------------------------------------------------------

type knownFinding struct {
	Property  string `json:"property"`
	Signature string `json:"signature"`
	What      string `json:"what"`
	Status    string `json:"status"` // "known" or "fixed"
	Commit    string `json:"commit,omitempty"`
	Replay    string `json:"replay,omitempty"`
}

var (
	knownOnce sync.Once
	knownSigs = map[string]bool{}
)

func isKnown(prop, sig string) bool {
	knownOnce.Do(func() {
		path := os.Getenv("VERIF_KNOWN")
		if path == "" {
			return
		}
		b, err := os.ReadFile(path)
		if err != nil {
			return
		}
		var doc struct {
			Findings []knownFinding `json:"findings"`
		}
		if json.Unmarshal(b, &doc) != nil {
			return
		}
		for _, f := range doc.Findings {
			if f.Status == "known" {
				knownSigs[f.Property+"|"+f.Signature] = true
			}
		}
	})
	return knownSigs[prop+"|"+sig]
}

// ---- violations -------------------------------------------------------------------

// Violation is what a monitor reports.
type Violation struct {
	Prop   string `json:"property"`
	Sig    string `json:"signature"` // property:rule:abstract failing step
	Detail string `json:"detail"`
	Step   int    `json:"step"`
}

func (v *Violation) Error() string {
	return fmt.Sprintf("%s [%s] step %d: %s", v.Prop, v.Sig, v.Step, v.Detail)
}

func violation(prop, sig, format string, args ...interface{}) *Violation {
	return &Violation{Prop: prop, Sig: prop + ":" + sig, Detail: fmt.Sprintf(format, args...)}
}

type failFile struct {
	Property  string      `json:"property"`
	Signature string      `json:"signature"`
	Detail    string      `json:"detail"`
	Step      int         `json:"step"`
	Kind      string      `json:"kind"` // which replay interpreter understands Case
	Case      interface{} `json:"case"`
}

// saveFailure writes the (currently smallest) failing case; rapid calls the
// property again while shrinking, so the last write is the shrunk case.
func saveFailure(v *Violation, kind string, c interface{}) {
	dir := os.Getenv("VERIF_FAILDIR")
	if dir == "" {
		return
	}
	_ = os.MkdirAll(dir, 0o755)
	b, err := json.MarshalIndent(failFile{Property: v.Prop, Signature: v.Sig, Detail: v.Detail, Step: v.Step, Kind: kind, Case: c}, "", " ")
	if err != nil {
		return
	}
	_ = os.WriteFile(filepath.Join(dir, v.Prop+".json"), b, 0o644)
}

// saveCurrent records the case about to run (used where a failure kills the process).
func saveCurrent(prop, kind string, c interface{}) {
	dir := os.Getenv("VERIF_FAILDIR")
	if dir == "" {
		return
	}
	_ = os.MkdirAll(dir, 0o755)
	b, err := json.Marshal(failFile{Property: prop, Signature: prop + ":data-race", Detail: "case in flight when the race detector halted the process", Kind: kind, Case: c})
	if err == nil {
		_ = os.WriteFile(filepath.Join(dir, prop+"-current.json"), b, 0o644)
	}
}

type fataler interface {
	Fatalf(format string, args ...interface{})
	Logf(format string, args ...interface{})
}

// handle routes a monitor's verdict: known signature → counted and ignored,
// anything else → saved and fatal. Returns true if the case should stop.
func handle(t fataler, v *Violation, kind string, c interface{}) bool {
	if v == nil {
		return false
	}
	if isKnown(v.Prop, v.Sig) {
		st(v.Prop).known(v.Sig)
		return true
	}
	saveFailure(v, kind, c)
	// rapid compares failure messages while shrinking: the fatal message must be
	// a pure function of the case (no timestamps, no random tokens).
	t.Logf("detail: %s", v.Detail)
	t.Fatalf("VIOLATION %s [%s] step %d", v.Prop, v.Sig, v.Step)
	return true
}

func envInt(name string, def int) int {
	if s := os.Getenv(name); s != "" {
		if n, err := strconv.Atoi(s); err == nil {
			return n
		}
	}
	return def
}

func thorough() bool { return strings.EqualFold(os.Getenv("VERIF_TIER"), "thorough") }

func TestMain(m *testing.M) {
	code := m.Run()
	dumpStats()
	os.Exit(code)
}
