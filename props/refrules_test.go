package props

import (
	"regexp"
	"unicode"
	"unicode/utf8"
)

// refRules is an independent reading of the documented validation policy
// (lengths in bytes, tallies by Unicode class, whitespace rule, regex).
type refRules struct {
	Required        bool
	MustMatch       *regexp.Regexp
	MinLength       int
	MaxLength       int
	MinLetters      int
	MinLower        int
	MinUpper        int
	MinNumeric      int
	MinSymbols      int
	AllowWhitespace bool
}

func (r refRules) valid(s string) bool {
	if r.Required {
		blank := true
		for _, c := range s {
			// RE2 \s is [\t\n\f\r ]
			if !(c == ' ' || c == '\t' || c == '\n' || c == '\f' || c == '\r') {
				blank = false
				break
			}
		}
		if blank {
			return false
		}
	}
	if r.MustMatch != nil && !r.MustMatch.MatchString(s) {
		return false
	}
	if r.MinLength > 0 && len(s) < r.MinLength {
		return false
	}
	if r.MaxLength > 0 && len(s) > r.MaxLength {
		return false
	}
	var up, lo, num, sym, ws int
	for i := 0; i < len(s); {
		c, size := utf8.DecodeRuneInString(s[i:])
		i += size
		switch {
		case unicode.IsLetter(c):
			if unicode.IsUpper(c) {
				up++
			} else {
				lo++
			}
		case unicode.IsDigit(c):
			num++
		case unicode.IsSpace(c):
			ws++
		default:
			sym++
		}
	}
	if up+lo < r.MinLetters || up < r.MinUpper || lo < r.MinLower || num < r.MinNumeric || sym < r.MinSymbols {
		return false
	}
	if !r.AllowWhitespace && ws > 0 {
		return false
	}
	return true
}

// defaultPasswordPolicy is the policy of defaults.NewHTTPBodyReader.
var defaultPasswordPolicy = refRules{MinLength: 8, MinNumeric: 1, MinSymbols: 1, MinUpper: 1, MinLower: 1}

// bcryptCanon is the key stream bcrypt actually uses: the first 72 bytes of
// the cyclic repetition of password||0x00.
func bcryptCanon(pw string) string {
	if customHasherOn {
		return pw // the application's hasher digests every byte
	}
	k := append([]byte(pw), 0)
	out := make([]byte, 72)
	for i := range out {
		out[i] = k[i%len(k)]
	}
	return string(out)
}
