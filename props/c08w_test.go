package props

import (
	"fmt"
	"strings"
	"testing"

	"github.com/volatiletech/authboss/v3"

	"verif/harness"
)

// ---- C08 inside whole request chains: the protected handler only runs for what the session says
//
// TestC08 enumerates the middleware's decision table in isolation. This machine
// looks at the same property where the middleware is not alone: behind the
// remember or expire middleware, in histories over every flow, with backend
// faults. Only the safety half is judged here (the handler ran => the session
// named a loadable user and every requirement held); the table covers the rest.

type monC08w struct {
	lvl         monC13   // reference model of what each browser's session has proved (full login completed / remember cookie only)
	viaRemember []string // per browser: the user a remember cookie put into the session, until a login as that user completes
	twofaFor    []string // per browser: the user whose second-factor step set the session's 2FA mark
	signedOut   []bool   // per browser: the application signed the browser out (DelAllSession + DelKnownCookie) and nothing has logged it in since
	unsure      []bool   // per browser: a login-type request with a failed backend call left a user in the session (it may have completed the credential check before it failed)
}

func (c *monC08w) Init(m *Machine) {
	c.viaRemember, c.twofaFor = make([]string, len(m.W.Jars)), make([]string, len(m.W.Jars))
	c.unsure = make([]bool, len(m.W.Jars))
	c.signedOut = make([]bool, len(m.W.Jars))
}

// track follows the session's provenance independently of the half-auth mark the library keeps.
func (c *monC08w) track(m *Machine, s *Step) {
	c.lvl.trackLevel(m, s)
	b := s.Op.B % len(m.W.Jars)
	if s.Op.K == "setcookie" || s.Op.K == "steal" {
		c.signedOut[b] = false
	}
	if s.Op.K == "newsess" || s.Resp == nil {
		if s.Op.K == "newsess" {
			c.viaRemember[b], c.twofaFor[b], c.unsure[b] = "", "", false
		}
		return
	}
	switch s.Op.K {
	case "visit":
		if s.Op.S == "/signout" && s.Resp.Status == 204 && s.Resp.Panic == nil {
			c.signedOut[b] = true
			m.flag("application-signout")
		}
	case "set", "get", "logout", "advance":
	default:
		c.signedOut[b] = false // anything that may log in or hand the browser a cookie
	}
	uid := s.Resp.UID()
	switch s.Op.K {
	case "login", "otplogin", "recend", "o2cb", "register", "totpvalidate", "smsvalidate":
		if s.Resp.Fired != "" && uid != "" {
			c.unsure[b] = true
		}
	}
	if uid == "" {
		c.unsure[b] = false
	}
	if (s.Op.K == "totpvalidate" || s.Op.K == "smsvalidate") && s.Resp.SessAfter[authboss.Session2FA] != "" && uid != "" &&
		(s.Resp.SessBefore[authboss.Session2FA] == "" || s.Resp.UIDBefore() != uid) {
		c.twofaFor[b] = uid // this request completed a second-factor step for uid
	}
	if s.Resp.SessAfter[authboss.Session2FA] == "" {
		c.twofaFor[b] = ""
	}
	switch {
	case uid == "":
		c.viaRemember[b] = ""
	case s.Resp.UIDBefore() == "" && m.rotationOwner(s) == uid:
		c.viaRemember[b] = uid
	case c.viaRemember[b] != uid || c.lvl.level[b] == "full":
		c.viaRemember[b] = ""
	}
}

var c08wProbes = map[string]bool{"none": true, "full": true, "2fa": true, "full2fa": true, "any": true}

func (c *monC08w) After(m *Machine, s *Step) *Violation {
	defer c.track(m, s)
	if s.Resp == nil {
		return nil
	}
	r := s.Resp
	if v := c.moduleRouteRefusal(m, s); v != nil {
		return v
	}
	name := r.Rec.ProbeName
	if !c08wProbes[name] {
		if s.Op.K == "visit" && !r.Rec.ProbeRan {
			m.flag("refused")
		}
		return nil
	}
	if !r.Rec.ProbeRan {
		m.flag("refused")
		return nil
	}
	if b := s.Op.B % len(m.W.Jars); c.signedOut[b] {
		// the session named a user once; the application's sign-out response deleted everything and the cookie, nothing
		// has logged the browser in since: whatever the stored session says now, it names nobody
		return violation("C08", "handler-ran-after-application-signout:"+name, "the handler behind the %s requirement ran (saw user %q) for a browser the application had signed out with DelAllSession + DelKnownCookie (session before the request: %v)", name, r.Rec.ProbeUID, r.SessBefore)
	}
	uid := r.SessBefore[authboss.SessionKey]
	half := r.SessBefore[authboss.SessionHalfAuthKey] == "true"
	two := r.SessBefore[authboss.Session2FA] != ""
	if uid == "" {
		// the remember middleware may have re-authenticated the browser on the way in:
		// then the response carries the user and the half-auth mark
		rot := m.rotationOwner(s)
		if rot == "" || r.SessAfter[authboss.SessionKey] != rot || r.SessAfter[authboss.SessionHalfAuthKey] != "true" {
			return violation("C08", "handler-ran-without-session-user:"+name, "the handler behind the %s requirement ran (saw user %q) although the session named no user and no remember re-authentication completed (session after: %v, failed backend call %q)", name, r.Rec.ProbeUID, r.SessAfter, r.Fired)
		}
		uid, half, two = rot, true, false
		m.flag("ran-after-remember-reauth")
	}
	if _, ok := s.Pre.Users[uid]; !ok {
		return violation("C08", "handler-ran-for-unloadable-user:"+name, "the handler behind the %s requirement ran for session user %q who is not in storage", name, uid)
	}
	if r.Rec.ProbeUID != uid {
		return violation("C08", "handler-saw-other-user:"+name, "session user %q, handler saw %q", uid, r.Rec.ProbeUID)
	}
	if strings.Contains(name, "full") && half {
		return violation("C08", "handler-ran-half-authed:"+name, "the handler behind %s ran for %q whose session is only half-authenticated", name, uid)
	}
	if b := s.Op.B % len(m.W.Jars); strings.Contains(name, "full") && r.SessBefore[authboss.SessionKey] == uid && c.viaRemember[b] == uid && len(c.lvl.level) > b && c.lvl.level[b] == "half" && !c.unsure[b] {
		// the mark is gone although nothing completed a login: "full rather than half authentication" is about what was proved
		return violation("C08", "handler-ran-for-remembered-session:"+name, "the handler behind %s ran for %q whose session goes back to a remember cookie; no login as that user completed since (session %v)", name, uid, r.SessBefore)
	}
	if strings.Contains(name, "2fa") && !two {
		return violation("C08", "handler-ran-without-2fa:"+name, "the handler behind %s ran for %q whose session carries no 2FA mark", name, uid)
	}
	if b := s.Op.B % len(m.W.Jars); strings.Contains(name, "2fa") && two && r.SessBefore[authboss.SessionKey] == uid && c.twofaFor[b] != uid {
		// "second factor completed" is about the user the session names: a mark left by somebody else's second factor does not count
		return violation("C08", "handler-ran-on-other-users-2fa:"+name, "the handler behind %s ran for %q; the session's 2FA mark was set by the second-factor step of %q, %q never completed one in this session", name, uid, c.twofaFor[b], uid)
	}
	m.flag("ran:" + name)
	return nil
}

// moduleRouteRefusal: the library wraps its own 2FA settings routes with the same middleware. An anonymous
// request (no session user, no remember cookie) to one of them gets exactly the configured refusal.
func (c *monC08w) moduleRouteRefusal(m *Machine, s *Step) *Violation {
	r, cfg := s.Resp, m.C.Cfg
	var kind string
	switch s.Op.K {
	case "totpsetup", "totpconfirm":
		kind = "totp"
	case "smssetup", "smsconfirm":
		kind = "sms"
	case "regen":
		kind = "recovery"
	default:
		return nil
	}
	if !cfg.HasSetup(kind) || r.UIDBefore() != "" || r.CookBefore["rm"] != "" || r.Fired != "" || r.Panic != nil || s.Op.RQ != "" || s.Op.JM != "" {
		return nil
	}
	m.flag("refused")
	if r.Rec.HandlerRan {
		return violation("C08", "module-handler-ran-without-session-user:"+s.Op.K, "the %s handler ran for a request without a session user", s.Op.K)
	}
	refusal := cfg.Refusal
	if cfg.LegacyRedirect {
		refusal = 1
	}
	ok := false
	switch refusal {
	case 0:
		ok = r.Status == 404
	case 2:
		ok = r.Status == 401
	case 1:
		ok = r.Location != "" && strings.HasPrefix(r.Location, cfg.Mount+"/login?")
	}
	if !ok {
		return violation("C08", fmt.Sprintf("module-route-refusal:%s:mode=%d", s.Op.K, refusal), "anonymous %s request: configured refusal mode %d (0=404, 1=redirect to login, 2=401), answered %d location %q", s.Op.K, refusal, r.Status, r.Location)
	}
	return nil
}

func (c *monC08w) End(m *Machine) *Violation { return nil }

var kindsC08w = append(append([]wk{}, worldKinds...), wk{"visit", 30}, wk{"snip:remember", 8}, wk{"snip:2fa", 4}, wk{"snip:idle", 3}, wk{"snip:switch2fa", 5}, wk{"totpsetup", 4}, wk{"smssetup", 3}, wk{"totpconfirm", 2}, wk{"regen", 2}, wk{"newsess", 4}, wk{"snip:appsignout", 8})

var profC08w = profile{
	arbVariants: true,
	must:        []string{"auth"}, may: []string{"confirm", "lock", "logout", "oauth2", "otp", "recover", "register", "remember"},
	setups: []string{"totp", "sms", "recovery", "expire"}, kinds: kindsC08w, minOps: 14, maxOps: 34,
	accts: [2]int{2, 3}, browsers: [2]int{1, 3}, middlewares: []string{"", "remember", "remember", "expire"},
	faultPct: 12, faultKinds: []string{"generic", "generic", "notfound"},
	jsonMangle: 4,
	badQuery:   4, badQueryForm: true,
}

func TestC08World(t *testing.T) {
	st("C08").Rule = "world machine: the access middleware behind the remember / expire middleware in histories over every flow, 12% of the requests with one backend call failed; " +
		"oracle (safety half): a protected probe ran => the pre-request session named a user in storage (or a remember re-authentication completed in this request, which only satisfies the non-full requirements), the handler saw exactly that user, full-auth probes never ran half-authed, 2FA probes never without the mark; non-trivial = >=1 probe ran and >=1 was refused; distinct by FNV of the abstract trace"
	runWorldProp(t, "C08", profC08w, func() Monitor { return &monC08w{} }, func(m *Machine) bool {
		ran := false
		for f := range m.Flags {
			if strings.HasPrefix(f, "ran:") || f == "ran-after-remember-reauth" {
				ran = true
			}
		}
		return ran && m.Flags["refused"]
	})
}

func init() {
	replayers["world:C08"] = worldReplayer(func() Monitor { return &monC08w{} })
}

var _ = harness.AppKeys
