package props

import (
	"encoding/base64"
	"encoding/json"
	"fmt"
	"github.com/pquerna/otp/totp"
	"net/url"
	"runtime"
	"sort"
	"strings"
	"sync"
	"sync/atomic"
	"testing"
	"time"

	"pgregory.net/rapid"

	"verif/harness"
)

// ---- C20: one configured instance serves concurrent requests without races or cross-talk

type c20Case struct {
	Cfg     harness.Config `json:"cfg"`
	Scripts [][]string     `json:"scripts"` // one per client
	Procs   int            `json:"gomaxprocs"`
	Perturb uint64         `json:"perturb_seed"`
}

var c20Steps = []string{"login-ok", "login-bad", "visit-full", "visit-none", "logout", "recover", "register", "otp-login", "remember", "otp-add", "login-ok",
	"recover-bad", "confirm-bad", "login-unknown", "get-pages", "register-dup", "recover-unknown", "recover-refused", "odd-methods", "totp-qr", "sms-login", "totp-login", "totp-login", "oauth", "oauth"}

type c20Client struct {
	w    *harness.World
	i    int
	pid  string
	pw   string
	otps []string
	out  []string
	// sequential fault runs (TestC20Faults)
	fault func() harness.FaultPlan
	fired bool
	dead  bool // a request never returned: the client gives up
	// harness-owned schedules (TestC20Nested): called before / after every request
	gate, ungate func()
}

func sortedKeysOf(m map[string]string) string {
	ks := make([]string, 0, len(m))
	for k := range m {
		ks = append(ks, k)
	}
	sort.Strings(ks)
	return strings.Join(ks, ",")
}

func (c *c20Client) note(step string, r *harness.Resp) {
	loc := r.Location
	if i := strings.IndexByte(loc, '?'); i >= 0 {
		loc = loc[:i]
	}
	status := ""
	var keys []string
	if r.JSON != nil {
		status, _ = r.JSON["status"].(string)
		for k := range r.JSON {
			keys = append(keys, k)
		}
		sort.Strings(keys)
	}
	uid := r.SessAfter["uid"]
	// what the page tells the user: the error texts of the rendered data
	msg := ""
	if d, ok := r.JSON["data"].(map[string]interface{}); ok {
		if e, ok := d["error"]; ok {
			msg += fmt.Sprint(e)
		}
		if es, ok := d["errors"].(map[string]interface{}); ok {
			var fs []string
			for f, v := range es {
				fs = append(fs, fmt.Sprintf("%s=%v", f, v))
			}
			sort.Strings(fs)
			msg += "|" + strings.Join(fs, ";")
		}
	}
	c.out = append(c.out, fmt.Sprintf("%s: %d loc=%s json=%s%v msg=%q uid=%s sess=[%s] cook=[%s] probe=%v panic=%v", step, r.Status, loc, status, keys, msg, uid, sortedKeysOf(r.SessAfter), sortedKeysOf(r.CookAfter), r.Rec.ProbeRan, r.Panic != nil))
}

func (c *c20Client) do(step, method, path string, form map[string]string, query url.Values) *harness.Resp {
	if c.dead {
		return &harness.Resp{Hung: true}
	}
	q := harness.Req{Browser: c.i, Method: method, Path: path, Form: form, Query: query}
	if c.fault != nil {
		q.Fault = c.fault()
	}
	if c.gate != nil {
		c.gate()
	}
	r := c.w.Do(q)
	if c.ungate != nil {
		c.ungate()
	}
	if r.Fired != "" {
		c.fired = true
	}
	if r.Hung {
		c.dead = true
		c.out = append(c.out, step+": NO ANSWER")
		return r
	}
	c.note(step, r)
	return r
}

// mailToken polls the configured mailer's capture for the newest token mailed to addr.
func (c *c20Client) mailToken(addr, marker string, seen int) (string, int) {
	// generous: under load (16 race-instrumented shards, GOMAXPROCS 2) a mail goroutine plus an SMTP
	// conversation has been seen to take more than 2 s; a mail that is really lost costs the full wait
	deadline := time.Now().Add(12 * time.Second)
	for {
		var toks []string
		switch c.w.Cfg.Mailer {
		case "log":
			toks = harness.RawMailTokens(c.w.MailBuf.Messages(), addr, marker)
		case "smtp":
			toks = harness.RawMailTokens(c.w.SMTPMessages(), addr, marker)
		default:
			for _, ml := range c.w.Mail.Since(0) {
				if len(ml.To) > 0 && ml.To[0] == addr && strings.Contains(ml.URL, marker) {
					toks = append(toks, ml.Token)
				}
			}
		}
		if len(toks) > seen {
			return toks[len(toks)-1], len(toks)
		}
		if time.Now().After(deadline) {
			if traceOn {
				fmt.Printf("TRACE mailToken timeout addr=%s marker=%s seen=%d have=%d mailer=%q mailgo=%v\n", addr, marker, seen, len(toks), c.w.Cfg.Mailer, c.w.Cfg.MailGo)
			}
			return "", seen
		}
		time.Sleep(200 * time.Microsecond)
	}
}

func (c *c20Client) run(script []string) {
	w := c.w
	P := w.Path
	recSeen, cnfSeen := 0, 0
	newPID := fmt.Sprintf("new%d@x.io", c.i)
	for n, step := range script {
		name := fmt.Sprintf("%d.%s", n, step)
		switch step {
		case "login-ok":
			c.do(name, "POST", P("/login"), map[string]string{"email": c.pid, "password": c.pw}, nil)
		case "login-bad":
			c.do(name, "POST", P("/login"), map[string]string{"email": c.pid, "password": "wrong-Pass1!"}, nil)
		case "visit-full":
			c.do(name, "GET", "/p/full", nil, nil)
		case "visit-none":
			c.do(name, "GET", "/p/none", nil, nil)
		case "logout":
			c.do(name, "DELETE", P("/logout"), nil, nil)
		case "recover":
			c.do(name+".start", "POST", P("/recover"), map[string]string{"email": c.pid}, nil)
			tok, seen := c.mailToken(c.pid, "recover/end?", recSeen)
			recSeen = seen
			c.out = append(c.out, fmt.Sprintf("%s.mail: got=%v", name, tok != ""))
			c.pw = "N3w-Secret_pw" + fmt.Sprint(n)
			c.do(name+".end", "POST", P("/recover/end"), map[string]string{"token": tok, "password": c.pw, "confirm_password": c.pw}, nil)
			c.do(name+".login", "POST", P("/login"), map[string]string{"email": c.pid, "password": c.pw}, nil)
		case "register":
			existed := w.Store.Peek(newPID) != nil
			c.do(name+".post", "POST", P("/register"), map[string]string{"email": newPID, "password": "Passw0rd!N", "confirm_password": "Passw0rd!N"}, nil)
			tok := ""
			if !existed {
				tok, cnfSeen = c.mailToken(newPID, "confirm?", cnfSeen)
			}
			c.out = append(c.out, fmt.Sprintf("%s.mail: got=%v", name, tok != ""))
			if w.Cfg.JSON {
				c.do(name+".confirm", "GET", P("/confirm"), map[string]string{"cnf": tok}, nil)
			} else {
				c.do(name+".confirm", "GET", P("/confirm"), nil, url.Values{"cnf": {tok}})
			}
			c.do(name+".login", "POST", P("/login"), map[string]string{"email": newPID, "password": "Passw0rd!N"}, nil)
		case "recover-bad":
			// refused recovery tokens: wrong size, unknown selector, bad base64
			for k, tok := range []string{"QUJD", base64.URLEncoding.EncodeToString([]byte(fmt.Sprintf("%064d", c.i))), "***"} {
				c.do(fmt.Sprintf("%s.%d", name, k), "POST", P("/recover/end"), map[string]string{"token": tok, "password": "Passw0rd!Q", "confirm_password": "Passw0rd!Q"}, nil)
			}
		case "confirm-bad":
			for k, tok := range []string{"QUJD", base64.URLEncoding.EncodeToString([]byte(fmt.Sprintf("%064d", c.i))), "***"} {
				if w.Cfg.JSON {
					c.do(fmt.Sprintf("%s.%d", name, k), "GET", P("/confirm"), map[string]string{"cnf": tok}, nil)
				} else {
					c.do(fmt.Sprintf("%s.%d", name, k), "GET", P("/confirm"), nil, url.Values{"cnf": {tok}})
				}
			}
		case "login-unknown":
			c.do(name, "POST", P("/login"), map[string]string{"email": fmt.Sprintf("ghost%d@x.io", c.i), "password": "wrong-Pass1!"}, nil)
		case "recover-refused":
			// the client's second account lives in a domain whose mail server refuses it: the mailer's error path
			c.do(name, "POST", P("/recover"), map[string]string{"email": fmt.Sprintf("bounce%d@refuse.x.io", c.i)}, nil)
		case "sms-login":
			// the client's second account has SMS 2FA: password step, a wrong code, then the texted one
			smsPID := fmt.Sprintf("sms%d@x.io", c.i)
			c.do(name+".pw", "POST", P("/login"), map[string]string{"email": smsPID, "password": goodPWs[c.i%4]}, nil)
			c.do(name+".wrong", "POST", P("/2fa/sms/validate"), map[string]string{"code": "000000"}, nil)
			code := w.Jars[c.i].SessionCopy()["sms_secret"]
			c.out = append(c.out, fmt.Sprintf("%s.code: got=%v", name, code != ""))
			c.do(name+".code", "POST", P("/2fa/sms/validate"), map[string]string{"code": code}, nil)
			c.do(name+".out", "DELETE", P("/logout"), nil, nil)
		case "oauth":
			// sign in through the provider: start, then the provider's callback with this client's own code
			w.Jars[c.i].ClearSession()
			c.do(name+".start", "GET", P("/oauth2/goog"), nil, nil)
			state := w.Jars[c.i].SessionCopy()["oauth2_state"]
			c.out = append(c.out, fmt.Sprintf("%s.state: got=%v", name, state != ""))
			c.do(name+".cb", "GET", P("/oauth2/callback/goog"), nil, url.Values{"state": {state}, "code": {fmt.Sprintf("code-c%d", c.i)}})
			c.do(name+".visit", "GET", "/p/none", nil, nil)
			c.do(name+".out", "DELETE", P("/logout"), nil, nil)
		case "totp-login":
			// the client's fourth account has TOTP 2FA: password step, a wrong code, the current code, then the same code
			// again on a second login (refused as used when replay protection is on) - refusals for different reasons
			// (from a fresh session: with another account still logged in, the code page acts on that
			// account, the code stays unconsumed and the replay's fate would depend on whether an earlier
			// totp-login step fell into the same 30 s period - time, not the other clients)
			w.Jars[c.i].ClearSession()
			tp := fmt.Sprintf("totp%d@x.io", c.i)
			sec := ""
			if u := w.Store.Peek(tp); u != nil {
				sec = u.TOTPSecretKey
			}
			c.do(name+".pw", "POST", P("/login"), map[string]string{"email": tp, "password": goodPWs[c.i%4]}, nil)
			c.do(name+".wrong", "POST", P("/2fa/totp/validate"), map[string]string{"code": "000000"}, nil)
			code, _ := totp.GenerateCode(sec, time.Now())
			c.do(name+".code", "POST", P("/2fa/totp/validate"), map[string]string{"code": code}, nil)
			c.do(name+".out", "DELETE", P("/logout"), nil, nil)
			c.do(name+".pw2", "POST", P("/login"), map[string]string{"email": tp, "password": goodPWs[c.i%4]}, nil)
			c.do(name+".replay", "POST", P("/2fa/totp/validate"), map[string]string{"code": code}, nil)
			c.do(name+".out2", "DELETE", P("/logout"), nil, nil)
		case "totp-qr":
			// start a TOTP enrolment and fetch its QR image (a rendered PNG) a few times
			c.do(name+".login", "POST", P("/login"), map[string]string{"email": c.pid, "password": c.pw}, nil)
			c.do(name+".setup", "POST", P("/2fa/totp/setup"), map[string]string{}, nil)
			for k := 0; k < 3; k++ {
				c.do(fmt.Sprintf("%s.qr%d", name, k), "GET", P("/2fa/totp/qr"), nil, nil)
			}
		case "odd-methods":
			// methods the shipped router does not serve, on a path that is this client's own
			for _, mth := range []string{"HEAD", "OPTIONS", "PUT", "PATCH"} {
				c.do(name+"."+mth, mth, P(fmt.Sprintf("/login/x%d", c.i)), nil, nil)
				c.do(name+"."+mth+".login", mth, P("/login"), nil, nil)
			}
		case "recover-unknown":
			c.do(name, "POST", P("/recover"), map[string]string{"email": fmt.Sprintf("ghost%d@x.io", c.i)}, nil)
		case "get-pages":
			for _, pg := range []string{"/login", "/recover", "/register", "/otp/login", "/recover/end"} {
				c.do(name+pg, "GET", P(pg), nil, nil)
			}
		case "register-dup":
			c.do(name, "POST", P("/register"), map[string]string{"email": c.pid, "password": "Passw0rd!N", "confirm_password": "Passw0rd!N"}, nil)
		case "otp-login":
			otp := "0000-0000"
			if len(c.otps) > 0 {
				otp, c.otps = c.otps[0], c.otps[1:]
			}
			c.do(name, "POST", P("/otp/login"), map[string]string{"email": c.pid, "password": otp}, nil)
		case "otp-add":
			if _, in := w.Jars[c.i].SessionCopy()["uid"]; !in {
				c.do(name+".login", "POST", P("/login"), map[string]string{"email": c.pid, "password": c.pw}, nil)
			}
			r := c.do(name, "POST", P("/otp/add"), map[string]string{}, nil)
			if r.JSON != nil {
				if o, ok := r.JSON["otp"].(string); ok && o != "" {
					c.otps = append(c.otps, o)
				}
			}
		case "remember":
			c.do(name+".login", "POST", P("/login"), map[string]string{"email": c.pid, "password": c.pw, "rm": "true"}, nil)
			w.Jars[c.i].ClearSession()
			c.do(name+".visit", "GET", "/p/none", nil, nil)
			c.do(name+".full", "GET", "/p/full", nil, nil)
		}
	}
	// final stored state of the client's own accounts
	time.Sleep(time.Millisecond)
	for _, pid := range []string{c.pid, newPID} {
		u := w.Store.Peek(pid)
		if u == nil {
			c.out = append(c.out, "final "+pid+": absent")
			continue
		}
		c.out = append(c.out, fmt.Sprintf("final %s: confirmed=%v attempts=%d locked=%v otps=%d pwok=%v recsel=%v cnfsel=%v tokens=%d", pid, u.Confirmed, u.AttemptCount,
			u.Locked.After(time.Now()), len(splitCSV(u.OTPs)), bcryptOK(u.Password, c.pw) || bcryptOK(u.Password, "Passw0rd!N"), u.RecoverSelector != "", u.ConfirmSelector != "", len(w.Store.Tokens(pid))))
	}
}

func c20World(c c20Case, perturb bool) (*harness.World, error) {
	w, err := harness.NewWorld(c.Cfg)
	if err != nil {
		return nil, err
	}
	w.Concurrent = true
	if perturb {
		var ctr uint64
		seed := c.Perturb
		y := func() {
			n := atomic.AddUint64(&ctr, 1)
			h := (n + seed) * 0x9E3779B97F4A7C15
			switch {
			case h>>60 == 0:
				time.Sleep(time.Duration(h>>50&63) * time.Microsecond)
			case h>>62 == 1:
				runtime.Gosched()
			}
		}
		w.B.Yield = y
		w.Mail.Yield = y
		w.Log.Yield = y
		if w.LogBuf != nil {
			w.LogBuf.OnWrite = func(string) { y() }
		}
		if w.MailBuf != nil {
			w.MailBuf.OnWrite = func(string) { y() }
		}
	}
	return w, nil
}

func c20Clients(w *harness.World, k int) []*c20Client {
	var cs []*c20Client
	for i := 0; i < k; i++ {
		// each client's own identity at the OAuth2 provider
		w.RegisterCode(fmt.Sprintf("code-c%d", i), harness.OAuthIdentity{UID: fmt.Sprintf("c%d", i), Email: fmt.Sprintf("c%d@prov.io", i)})
	}
	for i := 0; i < k; i++ {
		cs = append(cs, &c20Client{w: w, i: i, pid: w.Cfg.Accounts[i].PID, pw: w.Cfg.Accounts[i].Password, otps: append([]string(nil), w.Seeded[i].OTPs...)})
	}
	return cs
}

func c20Run(c c20Case) (*Violation, map[string]bool) {
	flags := map[string]bool{}
	prev := runtime.GOMAXPROCS(c.Procs)
	defer runtime.GOMAXPROCS(prev)
	k := len(c.Scripts)
	w, err := c20World(c, true)
	if err != nil {
		st("C20").add("inconclusive", 1) // infrastructure hiccup (e.g. no free port): never a violation
		return nil, flags
	}
	cs := c20Clients(w, k)
	var wg sync.WaitGroup
	start := make(chan struct{})
	for i := range cs {
		wg.Add(1)
		go func(cl *c20Client, script []string) {
			defer wg.Done()
			<-start
			cl.run(script)
		}(cs[i], c.Scripts[i])
	}
	close(start)
	wg.Wait()
	time.Sleep(2 * time.Millisecond) // let mail goroutines the library started finish
	if w.MaxInflight >= 2 {
		flags["overlap"] = true
	}
	if c.Cfg.MailGo {
		flags["mail-goroutines"] = true
	}
	w.Close()
	for i := range cs {
		sw, err := c20World(c, false)
		if err != nil {
			st("C20").add("inconclusive", 1)
			return nil, flags
		}
		solo := c20Clients(sw, k)[i]
		solo.run(c.Scripts[i])
		time.Sleep(time.Millisecond)
		sw.Close()
		a, b := cs[i].out, solo.out
		for j := 0; j < len(a) || j < len(b); j++ {
			var x, y string
			if j < len(a) {
				x = a[j]
			}
			if j < len(b) {
				y = b[j]
			}
			if x != y {
				step := strings.SplitN(y+":", ":", 2)[0]
				if dot := strings.IndexByte(step, '.'); dot >= 0 {
					step = step[dot+1:]
				}
				return violation("C20", "cross-talk:"+step, "client %d of %d (script %v) observed\n   concurrent: %s\n   alone:      %s", i, k, c.Scripts[i], x, y), flags
			}
		}
	}
	return nil, flags
}

func c20Gen(t *rapid.T) c20Case {
	var c c20Case
	k := rapid.IntRange(2, 8).Draw(t, "clients")
	c.Cfg = harness.Config{Seed: rapid.Uint64Range(1, 1<<32).Draw(t, "seed"), Modules: []string{"auth", "confirm", "lock", "logout", "otp", "recover", "register", "remember", "oauth2"}, Providers: []string{"goog"}, ProviderParams: true,
		Setups: []string{"expire", "totp", "sms", "recovery"}, Mount: pick(t, "mount", "/auth", ""), JSON: chance(t, "json", 50), Browsers: k, Middleware: "remember",
		LockAfter: 4, LockWindowS: 300, LockDurS: 600, RecoverLogin: chance(t, "reclogin", 50), MailGo: chance(t, "mailgo", 60),
		Mailer: pick(t, "mailer", "", "log", "smtp", "smtp"), ShippedLog: chance(t, "shippedlog", 70), ModuleList: chance(t, "modlist", 50), Err500: chance(t, "err500", 50), Refusal: 1}
	otpsEach := pick(t, "otpseach", 0, 0, 2) // accounts that start without any one-time password make their first add an edge of its own
	for i := 0; i < k; i++ {
		c.Cfg.Accounts = append(c.Cfg.Accounts, harness.AccountSpec{PID: fmt.Sprintf("acct%d@x.io", i), Password: goodPWs[i%4], OTPs: otpsEach})
		n := rapid.IntRange(2, 6).Draw(t, "nsteps")
		var sc []string
		for j := 0; j < n; j++ {
			sc = append(sc, pick(t, "step", c20Steps...))
		}
		c.Scripts = append(c.Scripts, sc)
	}
	if chance(t, "samestart", 40) {
		// every client starts in the same flow at the same moment: the same code paths (and whatever they share) overlap for sure
		first := pick(t, "firststep", c20Steps...)
		for i := range c.Scripts {
			c.Scripts[i][0] = first
		}
	}
	for i := 0; i < k; i++ {
		c.Cfg.Accounts = append(c.Cfg.Accounts, harness.AccountSpec{PID: fmt.Sprintf("bounce%d@refuse.x.io", i), Password: goodPWs[i%4]})
	}
	for i := 0; i < k; i++ {
		c.Cfg.Accounts = append(c.Cfg.Accounts, harness.AccountSpec{PID: fmt.Sprintf("sms%d@x.io", i), Password: goodPWs[i%4], Phone: fmt.Sprintf("+1555010%d", i), Recovery: 1})
	}
	for i := 0; i < k; i++ {
		c.Cfg.Accounts = append(c.Cfg.Accounts, harness.AccountSpec{PID: fmt.Sprintf("totp%d@x.io", i), Password: goodPWs[i%4], TOTP: true, Recovery: 1})
	}
	c.Cfg.OneTimeTOTP = chance(t, "onetimetotp", 60)
	c.Procs = pick(t, "procs", 2, 4, 16)
	c.Perturb = rapid.Uint64Range(0, 1<<20).Draw(t, "perturb")
	return c
}

func TestC20(t *testing.T) {
	s := st("C20")
	s.Rule = "one initialised instance with the shipped router, body reader, responder, redirector, error handler, logger and LogMailer / SMTPMailer (against a loopback SMTP server), library mail goroutines on/off; 2-8 clients with their own browser and account run generated scripts (login ok/bad, register+confirm, recover, OTP add/login, remember visit, logout, protected visits) concurrently, " +
		"schedules perturbed by seed-driven yields/sleeps inside harness callbacks and GOMAXPROCS 2/4/16; oracle: the race detector (binary built with -race) and equality of every client's transcript with the same script run alone; non-trivial = >=2 requests inside library code simultaneously; distinct by (scripts, mailer, flags)"
	rapid.Check(t, func(rt *rapid.T) {
		c := c20Gen(rt)
		saveCurrent("C20", "c20", c) // the race detector halts the process: the case in flight is the reproduction
		v, flags := c20Run(c)
		var classes []string
		for f := range flags {
			classes = append(classes, f)
		}
		classes = append(classes, "mailer:"+c.Cfg.Mailer, fmt.Sprintf("clients=%d", len(c.Scripts)))
		s.record(flags["overlap"], fnv64(fmt.Sprint(c.Scripts), c.Cfg.Mailer, fmt.Sprint(c.Cfg.MailGo, c.Cfg.JSON, c.Cfg.ShippedLog, c.Procs)), classes, func() interface{} { return c })
		handle(rt, v, "c20", c)
	})
}

func init() {
	replayers["c20"] = func(raw json.RawMessage) (*Violation, error) {
		var c c20Case
		if err := json.Unmarshal(raw, &c); err != nil {
			return nil, err
		}
		// schedule-dependent: try a few times
		for i := 0; i < 5; i++ {
			if v, _ := c20Run(c); v != nil {
				return v, nil
			}
		}
		return nil, nil
	}
}
