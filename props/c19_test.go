package props

import (
	"encoding/json"
	"fmt"
	"net/url"
	"regexp"
	"strings"
	"testing"

	"github.com/volatiletech/authboss/v3/defaults"
	"pgregory.net/rapid"

	"verif/harness"
)

// ---- C19 (i): the default policy accepts a string exactly when it meets every configured minimum

type c19RuleCase struct {
	R refRules `json:"-"`
	// JSON-friendly copy
	Required, AllowWS                                              bool
	Match                                                          string
	MinLen, MaxLen, MinLetters, MinLower, MinUpper, MinNum, MinSym int
	S                                                              string
}

func (c c19RuleCase) rules() (defaults.Rules, refRules) {
	var re *regexp.Regexp
	if c.Match != "" {
		re = regexp.MustCompile(c.Match)
	}
	d := defaults.Rules{FieldName: "f", Required: c.Required, MatchError: "no match", MustMatch: re, MinLength: c.MinLen, MaxLength: c.MaxLen,
		MinLetters: c.MinLetters, MinLower: c.MinLower, MinUpper: c.MinUpper, MinNumeric: c.MinNum, MinSymbols: c.MinSym, AllowWhitespace: c.AllowWS}
	r := refRules{Required: c.Required, MustMatch: re, MinLength: c.MinLen, MaxLength: c.MaxLen, MinLetters: c.MinLetters, MinLower: c.MinLower,
		MinUpper: c.MinUpper, MinNumeric: c.MinNum, MinSymbols: c.MinSym, AllowWhitespace: c.AllowWS}
	return d, r
}

func c19RuleRun(c c19RuleCase) *Violation {
	d, r := c.rules()
	got, want := d.IsValid(c.S), r.valid(c.S)
	errsNil := d.Errors(c.S) == nil
	if got != want {
		return violation("C19", "policy-disagrees", "rules %+v: IsValid(%q) = %v, the reference reading says %v", d, c.S, got, want)
	}
	if errsNil != got {
		return violation("C19", "errors-vs-isvalid", "rules %+v on %q: IsValid=%v but Errors()==nil is %v", d, c.S, got, errsNil)
	}
	return nil
}

func c19GenRule(t *rapid.T) c19RuleCase {
	var c c19RuleCase
	small := rapid.IntRange(0, 4)
	c.Required = rapid.Bool().Draw(t, "required")
	c.AllowWS = rapid.Bool().Draw(t, "allowws")
	c.Match = pick(t, "match", "", "", "", `.*@.*\.[a-z]+`, `(?i)[a-z][a-z0-9]?`, `^[a-z]+$`, `\d`)
	c.MinLen = pick(t, "minlen", 0, 0, 1, 3, 8)
	c.MaxLen = pick(t, "maxlen", 0, 0, 4, 10, 20)
	c.MinLetters, c.MinLower, c.MinUpper = small.Draw(t, "letters"), small.Draw(t, "lower"), small.Draw(t, "upper")
	c.MinNum, c.MinSym = small.Draw(t, "num"), small.Draw(t, "sym")
	c.S = rapid.OneOf(
		rapid.StringOfN(rapid.RuneFrom([]rune("abcXYZ019!#$ \t\nñÉ日٣_-@.")), 0, 14, -1),
		rapid.String(),
		rapid.SampledFrom([]string{"", " ", "\t\n", " ", " ", "Passw0rd!", "passw0rd!", "PASSW0RD!", "Password!", "Passw0rd", "a@b.c", "ab cd", "٣٣٣", "ǅ", "\x00", "\xff\xfe"}),
	).Draw(t, "s")
	return c
}

func c19RuleClass(c c19RuleCase) (bool, string) {
	nonASCII := !isASCII(c.S)
	ws := strings.ContainsAny(c.S, " \t\n\r\f\v  ")
	mins := c.MinLen + c.MaxLen + c.MinLetters + c.MinLower + c.MinUpper + c.MinNum + c.MinSym
	return mins > 0 && len(c.S) > 0, fmt.Sprintf("nonascii=%v ws=%v req=%v allowws=%v match=%v", nonASCII, ws, c.Required, c.AllowWS, c.Match != "")
}

func TestC19Rules(t *testing.T) {
	s := st("C19")
	rapid.Check(t, func(rt *rapid.T) {
		c := c19GenRule(rt)
		v := c19RuleRun(c)
		nt, cls := c19RuleClass(c)
		s.add("rule-cases", 1)
		if nt {
			s.add("rule-cases-nontrivial", 1)
		}
		_ = cls
		handle(rt, v, "c19rule", c)
	})
}

func FuzzC19Rules(f *testing.F) {
	f.Add("Passw0rd!", uint32(0x01111108), false, false)
	f.Add("a b", uint32(0), true, false)
	f.Add(" ", uint32(0), true, true)
	f.Add("٣٣٣abc", uint32(0x00030000), false, true)
	f.Fuzz(func(t *testing.T, s string, bits uint32, required, allowWS bool) {
		c := c19RuleCase{Required: required, AllowWS: allowWS, S: s, MinLen: int(bits & 15), MaxLen: int(bits >> 4 & 31), MinLetters: int(bits >> 9 & 3),
			MinLower: int(bits >> 11 & 3), MinUpper: int(bits >> 13 & 3), MinNum: int(bits >> 15 & 3), MinSym: int(bits >> 17 & 3)}
		if v := c19RuleRun(c); v != nil && !isKnown(v.Prop, v.Sig) {
			saveFailure(v, "c19rule", c)
			t.Fatalf("VIOLATION %s", v.Error())
		}
	})
}

// ---- C19 (ii): registration creates exactly one account, never overwrites, enforces the policy

type c19Field struct {
	K string `json:"k"`
	V string `json:"v"`
}

type c19Req struct {
	Fields  []c19Field `json:"fields"` // in submission order; duplicates allowed
	RawJSON string     `json:"raw_json,omitempty"`
	FaultAt int        `json:"fault_at,omitempty"` // fail this backend call of the request (0 = none)
	InQuery []string   `json:"in_query,omitempty"` // form mode: these fields travel in the URL query string instead of the body (net/http merges both)
}

type c19Case struct {
	Cfg  harness.Config `json:"cfg"`
	Reqs []c19Req       `json:"reqs"`
}

// effective resolves duplicate fields the way the transport does: a form keeps
// the first value, a JSON object the last.
func effective(fields []c19Field, jsonMode bool) map[string]string {
	m := map[string]string{}
	for _, f := range fields {
		if _, seen := m[f.K]; seen && !jsonMode {
			continue
		}
		m[f.K] = f.V
	}
	return m
}

func c19Run(c c19Case) (*Violation, map[string]bool) {
	flags := map[string]bool{}
	w, err := harness.NewWorld(c.Cfg)
	if err != nil {
		return violation("C19", "world", "world construction failed: %v", err), flags
	}
	defer w.Close()
	pidField := "email"
	pidRule := refRules{Required: true, MustMatch: regexp.MustCompile(`.*@.*\.[a-z]+`)}
	if c.Cfg.Username {
		pidField = "username"
		pidRule = refRules{Required: true, MustMatch: regexp.MustCompile(`(?i)[a-z][a-z0-9]?`)}
	}
	for i, rq := range c.Reqs {
		w.Jars[0].ClearSession()
		pre := w.Store.Snapshot()
		nm := w.Mail.Len()
		q := harness.Req{Method: "POST", Path: w.Path("/register")}
		vals := effective(rq.Fields, c.Cfg.JSON)
		if c.Cfg.JSON {
			var sb strings.Builder
			sb.WriteByte('{')
			for j, f := range rq.Fields {
				if j > 0 {
					sb.WriteByte(',')
				}
				k, _ := json.Marshal(f.K)
				v, _ := json.Marshal(f.V)
				sb.Write(k)
				sb.WriteByte(':')
				sb.Write(v)
			}
			sb.WriteByte('}')
			body := sb.String()
			q.RawBody = &body
			// json.Marshal replaces invalid UTF-8; what the server sees is what Unmarshal yields
			var seen map[string]string
			if json.Unmarshal([]byte(body), &seen) == nil {
				vals = seen
			}
		} else {
			fm, qv := url.Values{}, url.Values{}
			var inBody, inQuery []c19Field
			for _, f := range rq.Fields {
				if contains(rq.InQuery, f.K) {
					qv.Add(f.K, f.V)
					inQuery = append(inQuery, f)
				} else {
					fm.Add(f.K, f.V)
					inBody = append(inBody, f)
				}
			}
			q.FormMulti = fm
			if len(qv) > 0 {
				q.Query = qv
				flags["fields-in-query"] = true
				// a form's body values come before the query's
				vals = effective(append(inBody, inQuery...), false)
			}
		}
		if rq.FaultAt > 0 {
			q.Fault = harness.FaultPlan{At: rq.FaultAt, Kind: "generic"}
		}
		r := w.Do(q)
		post := w.Store.Snapshot()
		mails := w.Mail.Since(nm)
		faulted := r.Fired != ""
		if faulted {
			flags["fault-fired"] = true
		}
		pid, pw := vals[pidField], vals["password"]
		confirmPW, hasConfirm := vals["confirm_password"]
		_ = hasConfirm
		valid := pidRule.valid(pid) && defaultPasswordPolicy.valid(pw) && (pw == "" || (confirmPW != "" && confirmPW == pw))
		_, exists := pre.Users[pid]
		step := fmt.Sprintf("request %d", i)
		switch {
		case !valid:
			flags["validation-failed"] = true
			if !snapEqual(pre, post) {
				return violation("C19", "invalid-registration-changed-storage", "%s fails validation (pid %q, password %d bytes) yet storage changed: %v", step, pid, len(pw), snapDiff(pre, post)), flags
			}
			if r.UID() != "" {
				return violation("C19", "invalid-registration-logged-in", "%s fails validation yet the session user is %q", step, r.UID()), flags
			}
		case exists:
			flags["duplicate"] = true
			if !snapEqual(pre, post) {
				return violation("C19", "duplicate-registration-changed-storage", "%s re-registers existing %q and changed storage: %v", step, pid, snapDiff(pre, post)), flags
			}
			if r.UID() != "" {
				return violation("C19", "duplicate-registration-logged-in", "%s re-registers existing %q and was logged in as %q", step, pid, r.UID()), flags
			}
		case len(pw) > 72:
			flags["oversized-password"] = true
			if !snapEqual(pre, post) || r.UID() != "" {
				return violation("C19", "unhashable-password-created-account", "%s has a %d-byte password bcrypt cannot hash, yet storage changed or a session was issued", step, len(pw)), flags
			}
		default:
			flags["created"] = true
			nu, ok := post.Users[pid]
			if faulted && !ok {
				// a backend call failed before the account existed: nothing to create, nobody to log in
				if r.UID() != "" || !usersEqual(pre, post) {
					return violation("C19", "failed-registration-left-traces", "%s failed in the backend (%s) before %q existed, yet storage changed or the session user is %q", step, r.Fired, pid, r.UID()), flags
				}
				continue
			}
			if !ok || len(post.Users) != len(pre.Users)+1 {
				return violation("C19", "valid-registration-did-not-create-exactly-one", "%s is valid for new pid %q: users before %d after %d (created %v, status %d err %v)", step, pid, len(pre.Users), len(post.Users), ok, r.Status, r.Rec.HandlerErr), flags
			}
			for p, pu := range pre.Users {
				if !userEqual(pu, post.Users[p]) {
					return violation("C19", "registration-changed-other-account", "%s creating %q changed account %q", step, pid, p), flags
				}
			}
			if !bcryptOK(nu.Password, pw) || strings.Contains(nu.Password, pw) {
				return violation("C19", "stored-password-not-hash-of-submitted", "%s: the stored password of %q does not verify the submitted one / is not a hash", step, pid), flags
			}
			for k, v := range nu.Arbitrary {
				allowed := false
				for _, wk := range c.Cfg.RegWhitelist {
					if wk == k {
						allowed = true
					}
				}
				if !allowed {
					return violation("C19", "non-whitelisted-field-stored:"+k, "%s stored extra field %q=%q which is not whitelisted (%v)", step, k, v, c.Cfg.RegWhitelist), flags
				}
				if vals[k] != v {
					return violation("C19", "extra-field-value-altered", "%s stored %q=%q, submitted %q", step, k, v, vals[k]), flags
				}
				flags["extra-field-stored"] = true
			}
			if nu.Confirmed || !nu.Locked.IsZero() || nu.AttemptCount != 0 || nu.OTPs != "" || nu.TOTPSecretKey != "" || nu.SMSPhone != "" || nu.RecoveryCodes != "" || nu.OAuth2UID != "" {
				return violation("C19", "hostile-field-took-effect", "%s: the new account %q has privileged fields set: %+v", step, pid, nu), flags
			}
			if c.Cfg.Has("confirm") {
				if r.UID() != "" {
					return violation("C19", "logged-in-before-confirmation", "%s: with e-mail confirmation in force the new user %q was logged in", step, pid), flags
				}
				if faulted {
					continue // whether the confirmation got started depends on where the failure hit
				}
				if len(mails) != 1 || len(mails[0].To) != 1 || mails[0].To[0] != nu.Email || nu.ConfirmSelector == "" {
					return violation("C19", "confirmation-not-started", "%s: new user %q: mails %d selector %q", step, pid, len(mails), nu.ConfirmSelector), flags
				}
			} else if r.UID() != pid && !(faulted && r.UID() == "") {
				return violation("C19", "not-logged-in-after-registration", "%s: without confirmation the new user %q must be logged in (session user %q)", step, pid, r.UID()), flags
			}
		}
		if _, has := vals["password"]; !has {
			flags["password-field-absent"] = true
		}
		for _, f := range rq.Fields {
			switch f.K {
			case "confirmed", "locked", "password_hash", "attempt_count", "totp_secret_key", "oauth2_uid":
				flags["hostile-field"] = true
			}
		}
	}
	return nil, flags
}

var c19Hostile = []c19Field{{"confirmed", "true"}, {"locked", "0001-01-01T00:00:00Z"}, {"password_hash", "$2a$04$abcdefghijklmnopqrstuu"}, {"attempt_count", "-5"},
	{"totp_secret_key", "JBSWY3DPEHPK3PXP"}, {"oauth2_uid", "u1"}, {"address", "1 Main St"}, {"role", "admin"}, {"Email", "other@x.io"}, {"pid", "x"}, {"rm", "true"}}

func c19Gen(t *rapid.T) c19Case {
	var c c19Case
	p := profile{must: []string{"register"}, may: []string{"auth", "confirm", "logout", "lock", "remember", "recover"}, accts: [2]int{1, 2}, browsers: [2]int{1, 1}, middlewares: []string{"", "remember"}}
	c.Cfg = genConfig(t, p)
	c.Cfg.RegWhitelist = subset(t, "regwl", []string{"address", "role", "confirmed", "nickname"}, 35)
	c.Cfg.Preserve = subset(t, "preserve", []string{"address", "email", "nickname"}, 35)
	pidField := "email"
	newPIDs := []string{"new0@x.io", "new1@x.io", "n@sub.dom.org", "UPPER@X.IO"}
	badPIDs := []string{"", " ", "no-at-sign", "a@b", "sp ace@x.io", "tab\t@x.io", "@.a", "x@y.IO", "a@b.c\n"}
	if c.Cfg.Username {
		pidField = "username"
		newPIDs = []string{"newuser0", "newuser1", "N", "z9"}
		badPIDs = []string{"", " ", "9", "__", "sp ace", "\t", "1a b"}
	}
	n := rapid.IntRange(1, 4).Draw(t, "nreqs")
	for i := 0; i < n; i++ {
		var pid string
		switch rapid.IntRange(0, 9).Draw(t, "pidkind") {
		case 0, 1:
			pid = c.Cfg.Accounts[rapid.IntRange(0, len(c.Cfg.Accounts)-1).Draw(t, "existing")].PID
		case 2:
			pid = pick(t, "badpid", badPIDs...)
		default:
			pid = pick(t, "newpid", newPIDs...)
		}
		pw := pick(t, "pw", append(append([]string{}, goodPWs...), "short1!", "alllowercase1!", "NoDigits!!", "NoSymbol11", "with space1!A", "", "Aa1!"+strings.Repeat("x", 69), "Pässw0rd!Ä", "Passw0rd!\x00")...)
		cpw := pw
		switch rapid.IntRange(0, 9).Draw(t, "cpw") {
		case 0:
			cpw = pw + "x"
		case 1:
			cpw = ""
		case 2:
			// a retyped password that is "nearly" the first one: other letter case, a Unicode case-fold twin, a blank
			// around it, a cut-off copy, another normalisation of the same glyphs - all of them are mismatches
			cpw = confirmNearMiss(pw, rapid.IntRange(0, 9).Draw(t, "cpwnear"))
		}
		var fields []c19Field
		// missing fields: the key itself absent from the submission (not just empty)
		if rapid.IntRange(0, 19).Draw(t, "haspid") > 0 {
			fields = append(fields, c19Field{pidField, pid})
		}
		if rapid.IntRange(0, 7).Draw(t, "haspw") > 0 {
			fields = append(fields, c19Field{"password", pw})
		}
		if rapid.IntRange(0, 9).Draw(t, "hasconfirm") > 0 {
			fields = append(fields, c19Field{"confirm_password", cpw})
		}
		if c.Cfg.Username {
			fields = append(fields, c19Field{"email", pid + "@mail.io"})
		}
		for k := rapid.IntRange(0, 3).Draw(t, "nhostile"); k > 0; k-- {
			fields = append(fields, pick(t, "hostile", c19Hostile...))
		}
		if chance(t, "bigfield", 4) {
			// a long free-text field (a pasted address, a base64 avatar): the request is as valid as without it
			fields = append(fields, c19Field{pick(t, "bigname", "address", "note", "avatar"), strings.Repeat(pick(t, "bigchar", "x", "Ab1!"), rapid.IntRange(16000, 20000).Draw(t, "bigreps"))})
		}
		for k := rapid.IntRange(0, 2).Draw(t, "ndup"); k > 0; k-- {
			// duplicate of an existing field with a different value, before or after the original
			if len(fields) == 0 {
				break
			}
			src := fields[rapid.IntRange(0, len(fields)-1).Draw(t, "dupof")]
			dup := c19Field{src.K, pick(t, "dupval", "other@x.io", "Passw0rd!Z", "", "zzz", src.V)}
			if rapid.Bool().Draw(t, "dupfirst") {
				fields = append([]c19Field{dup}, fields...)
			} else {
				fields = append(fields, dup)
			}
		}
		rq := c19Req{Fields: fields}
		if !c.Cfg.JSON && chance(t, "inquery", 15) {
			// a hand-made link / a client that puts (some of) the fields into the URL
			rq.InQuery = subset(t, "qf", []string{"email", "username", "password", "confirm_password"}, 60)
		}
		if chance(t, "regfault", 12) {
			rq.FaultAt = pick(t, "regfaultat", 1, 2, 3, 3, 4, 4, 5, 6)
		}
		c.Reqs = append(c.Reqs, rq)
	}
	return c
}

func TestC19(t *testing.T) {
	s := st("C19")
	s.Rule = "(i) random Rules (all minima 0-4, Min/MaxLength, Required, AllowWhitespace, regex) x strings over letters/digits/symbols/whitespace/non-ASCII against a reference policy evaluator; " +
		"(ii) register machine: 1-4 registration requests per generated configuration (form/JSON, e-mail/username PIDs, with/without confirm, generated whitelist and preserve lists) with duplicate, missing, extra and hostile fields and re-registration of existing PIDs; oracle: user-table diff against the reference validation; " +
		"non-trivial = a duplicate registration or a hostile extra field; distinct by (config class, field-shape sequence)"
	rapid.Check(t, func(rt *rapid.T) {
		c := c19Gen(rt)
		v, flags := c19Run(c)
		fp := newFP()
		fp.add(fmt.Sprint(c.Cfg.JSON, c.Cfg.Username, c.Cfg.Has("confirm"), c.Cfg.RegWhitelist))
		for _, r := range c.Reqs {
			for _, f := range r.Fields {
				fp.add(f.K, fmt.Sprint(len(f.V) > 0))
			}
			fp.add("|")
		}
		var classes []string
		for f := range flags {
			classes = append(classes, f)
		}
		s.record(flags["duplicate"] || flags["hostile-field"], fp.h, classes, func() interface{} { return c })
		handle(rt, v, "c19", c)
	})
}

func init() {
	replayers["c19"] = func(raw json.RawMessage) (*Violation, error) {
		var c c19Case
		if err := json.Unmarshal(raw, &c); err != nil {
			return nil, err
		}
		v, _ := c19Run(c)
		return v, nil
	}
	replayers["c19rule"] = func(raw json.RawMessage) (*Violation, error) {
		var c c19RuleCase
		if err := json.Unmarshal(raw, &c); err != nil {
			return nil, err
		}
		return c19RuleRun(c), nil
	}
}

// confirmNearMiss: a value a sloppy comparison (case folding, trimming, normalisation, prefix) would take for pw.
func confirmNearMiss(pw string, k int) string {
	switch k {
	case 0:
		return swapCase(pw)
	case 1:
		return strings.ToUpper(pw)
	case 2:
		return strings.ToLower(pw)
	case 3:
		return strings.NewReplacer("k", "\u212a", "s", "\u017f", "K", "\u212a", "S", "\u017f").Replace(pw) // KELVIN SIGN, LONG S: simple-fold twins
	case 4:
		return pw + " "
	case 5:
		return " " + pw
	case 6:
		if len(pw) > 1 {
			return pw[:len(pw)-1]
		}
		return pw + "y"
	case 7:
		return pw + "\x00"
	case 8:
		return strings.NewReplacer("\u00e4", "a\u0308", "\u00c4", "A\u0308", "a", "\u0430", "o", "\u043e").Replace(pw) // NFD spelling, Cyrillic look-alikes
	default:
		return pw + "\t"
	}
}

func swapCase(s string) string {
	b := []rune(s)
	for i, r := range b {
		switch {
		case r >= 'a' && r <= 'z':
			b[i] = r - 32
		case r >= 'A' && r <= 'Z':
			b[i] = r + 32
		}
	}
	return string(b)
}
