package props

import (
	"strings"
	"testing"
)

// sameSite is an independent, browser-faithful reading of the WHATWG URL
// parser as far as the origin is concerned (DESIGN.md Appendix A): it answers
// whether a browser on page `base` (scheme://host[:port]/path) following the
// location string L stays on the same origin. The second result names the
// class of L (used in violation signatures).
func sameSite(L string, baseScheme, baseHost string) (bool, string) {
	// 1. strip leading/trailing C0 control or space; remove tab/LF/CR anywhere
	i, j := 0, len(L)
	for i < j && L[i] <= 0x20 {
		i++
	}
	for j > i && L[j-1] <= 0x20 {
		j--
	}
	trimmed := i > 0 || j < len(L)
	s := L[i:j]
	stripped := strings.NewReplacer("\t", "", "\n", "", "\r", "").Replace(s)
	ctl := trimmed || stripped != s
	s = stripped
	suffix := ""
	if ctl {
		suffix = "+ctl"
	}
	isSlash := func(c byte) bool { return c == '/' || c == '\\' }
	hasBackslash := strings.Contains(s, "\\")
	if hasBackslash {
		suffix += "+backslash"
	}
	// 2. scheme
	scheme, rest := "", s
	if len(s) > 0 && isAlpha(s[0]) {
		k := 1
		for k < len(s) && (isAlpha(s[k]) || (s[k] >= '0' && s[k] <= '9') || s[k] == '+' || s[k] == '-' || s[k] == '.') {
			k++
		}
		if k < len(s) && s[k] == ':' {
			scheme, rest = strings.ToLower(s[:k]), s[k+1:]
		}
	}
	authority := func(r string) (bool, string) {
		// skip any run of slashes/backslashes, then host[:port] up to / \ ? #
		k := 0
		for k < len(r) && isSlash(r[k]) {
			k++
		}
		r = r[k:]
		end := len(r)
		for x := 0; x < len(r); x++ {
			if isSlash(r[x]) || r[x] == '?' || r[x] == '#' {
				end = x
				break
			}
		}
		auth := r[:end]
		if at := strings.LastIndexByte(auth, '@'); at >= 0 {
			auth = auth[at+1:]
		}
		if auth == "" {
			return false, "invalid-authority"
		}
		// host[:port]; a host with forbidden code points or a non-numeric port
		// makes URL parsing fail: the browser does not navigate anywhere
		hostPart, portPart := auth, ""
		if strings.HasPrefix(auth, "[") {
			if e := strings.IndexByte(auth, ']'); e >= 0 {
				hostPart, portPart = auth[:e+1], strings.TrimPrefix(auth[e+1:], ":")
				if auth[e+1:] != "" && !strings.HasPrefix(auth[e+1:], ":") {
					return false, "invalid-authority"
				}
			} else {
				return false, "invalid-authority"
			}
		} else if c := strings.LastIndexByte(auth, ':'); c >= 0 {
			hostPart, portPart = auth[:c], auth[c+1:]
		}
		for x := 0; x < len(portPart); x++ {
			if portPart[x] < '0' || portPart[x] > '9' {
				return false, "invalid-authority"
			}
		}
		if hostPart == "" {
			return false, "invalid-authority"
		}
		if !strings.HasPrefix(hostPart, "[") {
			for x := 0; x < len(hostPart); x++ {
				c := hostPart[x]
				if c <= 0x20 || c == 0x7f || strings.IndexByte("#/:<>?@[\\]^|%", c) >= 0 {
					return false, "invalid-authority"
				}
			}
		}
		host := strings.ToLower(auth)
		defPort := map[string]string{"http": ":80", "https": ":443"}[baseScheme]
		host = strings.TrimSuffix(host, defPort)
		return host == strings.TrimSuffix(strings.ToLower(baseHost), defPort), "authority"
	}
	special := map[string]bool{"http": true, "https": true, "ws": true, "wss": true, "ftp": true, "file": true}
	if scheme != "" {
		switch {
		case !special[scheme]:
			return false, "non-special-scheme" + suffix
		case scheme != baseScheme:
			// special authority slashes state: slashes optional
			if _, cls := authority(rest); cls == "invalid-authority" && scheme != "file" {
				return true, "unresolvable" + suffix
			}
			return false, "other-special-scheme" + suffix
		default:
			if len(rest) >= 2 && isSlash(rest[0]) && isSlash(rest[1]) {
				ok, cls := authority(rest)
				if ok {
					return true, "absolute-same-origin" + suffix
				}
				if cls == "invalid-authority" {
					return true, "unresolvable" + suffix
				}
				return false, "absolute-url" + suffix
			}
			return true, "same-scheme-relative-path" + suffix
		}
	}
	// 3. no scheme
	if len(rest) >= 2 && isSlash(rest[0]) && isSlash(rest[1]) {
		ok, cls := authority(rest)
		if ok {
			return true, "scheme-relative-same-host" + suffix
		}
		if cls == "invalid-authority" {
			return true, "unresolvable" + suffix // URL parsing fails: the browser does not navigate
		}
		return false, "scheme-relative" + suffix
	}
	return true, "relative" + suffix
}

func isAlpha(c byte) bool { return (c >= 'a' && c <= 'z') || (c >= 'A' && c <= 'Z') }

// The classifier itself is checked against strings hand-labelled from the URL
// Standard's state machine (both base schemes).
var sameSiteTable = []struct {
	L    string
	http bool // same-site when the page is http://site.example
	tls  bool // same-site when the page is https://site.example
}{
	{"/pow", true, true}, {"pow", true, true}, {"./x", true, true}, {"../x", true, true}, {"?q=1", true, true}, {"#f", true, true}, {"", true, true},
	{"/a//b", true, true}, {"/a/b?u=http://evil.com", true, true}, {"/a#//evil.com", true, true}, {"/%2F%2Fevil.com", true, true}, {"/%5Cevil.com", true, true},
	{"//evil.com", false, false}, {"//evil.com/x", false, false}, {"///evil.com", false, false}, {"////evil.com/", false, false},
	{"/\\evil.com", false, false}, {"\\/evil.com", false, false}, {"\\\\evil.com", false, false}, {"/\\/evil.com", false, false},
	{"http://evil.com", false, false}, {"https://evil.com/x", false, false}, {"HTTPS://EVIL.COM", false, false}, {"hTtP://evil.com", false, false},
	{"http:evil.com", true, false}, {"https:evil.com", false, true}, {"http:/evil.com", true, false}, {"https:/evil.com", false, true},
	{"http:\\\\evil.com", false, false}, {"https:\\\\evil.com", false, false}, {"http:/\\evil.com", false, false},
	{"http://site.example/x", true, false}, {"https://site.example/x", false, true}, {"//site.example/x", true, true}, {"//SITE.example", true, true},
	{"//site.example:80/", true, false}, {"//site.example:443/", false, true}, {"//site.example:8080/", false, false},
	{"//site.example.evil.com", false, false}, {"//site.example@evil.com", false, false}, {"//evil.com@site.example/", true, true},
	{"//user:pw@evil.com/", false, false}, {"//evil.com?site.example", false, false}, {"//evil.com#site.example", false, false}, {"//evil.com\\@site.example", false, false},
	{" //evil.com", false, false}, {"\t//evil.com", false, false}, {"\x01//evil.com", false, false}, {"\n//evil.com", false, false}, {"//evil.com ", false, false},
	{"/\t/evil.com", false, false}, {"/\n/evil.com", false, false}, {"/\r\\evil.com", false, false}, {"ht\ttp://evil.com", false, false}, {"h\nttps://evil.com", false, false},
	{"/ /evil.com", true, true}, {"/\x01/evil.com", true, true}, {"/x\t//evil.com", true, true},
	{"javascript:alert(1)", false, false}, {"JaVaScRiPt:alert(1)", false, false}, {"data:text/html,x", false, false}, {"mailto:a@b", false, false}, {"ftp://evil.com", false, false},
	{"file:///etc/passwd", false, false}, {"java\tscript:alert(1)", false, false}, {" javascript:alert(1)", false, false}, {"x-custom://evil.com", false, false},
	{"1http://evil.com", true, true}, {":http://evil.com", true, true}, {"/http://evil.com", true, true}, {"evil.com", true, true}, {"evil.com//x", true, true},
	{"//", true, true}, {"//@", true, true}, {"///", true, true}, {"//evil .com", true, true}, {"//evil.com:x/", true, true}, {"//ev<il.com", true, true},
	{"https:", true, true}, {"http:", true, true}, {"//[::1]/x", false, false}, {"//[::1", true, true}, {"//evil.com:8080/x", false, false}, {"//evil.com:/x", false, false},
}

func TestSameSiteClassifier(t *testing.T) {
	for _, row := range sameSiteTable {
		if got, cls := sameSite(row.L, "http", "site.example"); got != row.http {
			t.Errorf("page http: sameSite(%q) = %v (%s), hand label %v", row.L, got, cls, row.http)
		}
		if got, cls := sameSite(row.L, "https", "site.example"); got != row.tls {
			t.Errorf("page https: sameSite(%q) = %v (%s), hand label %v", row.L, got, cls, row.tls)
		}
	}
}
