package props

import (
	"context"
	"encoding/json"
	"errors"
	"fmt"
	"net/http"
	"net/http/httptest"
	"net/url"
	"path"
	"strconv"
	"strings"
	"testing"

	"github.com/volatiletech/authboss/v3"
	"github.com/volatiletech/authboss/v3/defaults"
	"pgregory.net/rapid"

	"verif/harness"
)

// ---- C08: the access middleware admits a request exactly when its requirements are met

type c08Row struct {
	User    int    `json:"user"`    // 0 absent, 1 empty, 2 unknown, 3 known
	Half    bool   `json:"half"`    // halfauth mark present
	TwoFA   bool   `json:"twofa"`   // twofactor mark present
	Reqs    int    `json:"reqs"`    // bit 1 full, bit 2 2fa
	Refusal int    `json:"refusal"` // 0 404, 1 redirect, 2 401
	Mounted bool   `json:"mounted"`
	Mount   string `json:"mount"`
	Storage int    `json:"storage"` // 0 ok, 1 not-found, 2 error, 3 error on the request's first load only (a blip), 4 / 5 the storer's own query deadline / cancellation (wrapped context errors)
	API     bool   `json:"api"`
	Legacy  bool   `json:"legacy"` // use the deprecated boolean constructors where they can express the row
}

type c08Case struct {
	Row      c08Row `json:"row"`
	RawPath  string `json:"raw_path"`  // escaped request-target path
	RawQuery string `json:"raw_query"` // raw query (no '?')
}

type c08Store struct{ mode int }

func (s c08Store) Load(ctx context.Context, key string) (authboss.User, error) {
	switch s.mode {
	case 1:
		return nil, authboss.ErrUserNotFound
	case 2:
		return nil, errors.New("database unavailable")
	case 4:
		// the storer bounds its own query: a timeout of the database, not of the request (whose context is alive)
		return nil, fmt.Errorf("select user: %w", context.DeadlineExceeded)
	case 5:
		return nil, fmt.Errorf("select user: %w", context.Canceled)
	case 3:
		if pr, ok := ctx.Value(c08ProbeKey{}).(*c08Probe); ok {
			if pr.loads++; pr.loads == 1 {
				return nil, errors.New("connection reset")
			}
		}
	}
	if key == "known@x.io" {
		return &harness.User{PID: key}, nil
	}
	return nil, authboss.ErrUserNotFound
}
func (s c08Store) Save(ctx context.Context, u authboss.User) error { return nil }

type c08SessKey struct{}

// c08Session reads the session from the request context so that one
// configured instance can serve every row that shares its configuration.
type c08Session struct{ cookie bool }

func (s c08Session) ReadState(r *http.Request) (authboss.ClientState, error) {
	if s.cookie {
		return c11State{}, nil
	}
	if m, ok := r.Context().Value(c08SessKey{}).(c11State); ok {
		return m, nil
	}
	return c11State{}, nil
}
func (s c08Session) WriteState(http.ResponseWriter, authboss.ClientState, []authboss.ClientStateEvent) error {
	return nil
}

var c08Mounts = []string{"", "/auth", "/a/b", "/", "/auth/"} // the last two: site-root mount, trailing slash (the library joins with path.Join)

type c08Probe struct {
	ran     bool
	sawUser string
	loads   int
}

type c08ProbeKey struct{}

type c08EnvKey struct {
	Mount            string
	API, Mounted     bool
	Storage, Refusal int
	Reqs             int
	Legacy           bool
}

var c08Envs = map[c08EnvKey]http.Handler{}

func c08Handler(row c08Row) http.Handler {
	k := c08EnvKey{row.Mount, row.API, row.Mounted, row.Storage, row.Refusal, row.Reqs, row.Legacy}
	if h, ok := c08Envs[k]; ok {
		return h
	}
	ab := authboss.New()
	ab.Config.Paths.Mount = row.Mount
	ab.Config.Core.ViewRenderer = defaults.JSONRenderer{}
	defaults.SetCore(&ab.Config, row.API, false)
	ab.Config.Core.Logger = &discardLogger{}
	ab.Config.Storage.Server = c08Store{mode: row.Storage}
	ab.Config.Storage.SessionState = c08Session{}
	ab.Config.Storage.CookieState = c08Session{cookie: true}
	probe := http.HandlerFunc(func(w http.ResponseWriter, r *http.Request) {
		if p, ok := r.Context().Value(c08ProbeKey{}).(*c08Probe); ok {
			p.ran = true
			if cu, err := ab.CurrentUser(r); err == nil && cu != nil {
				p.sawUser = cu.GetPID()
			}
		}
		w.WriteHeader(200)
	})
	reqs := authboss.MWRequirements(row.Reqs)
	var mw func(http.Handler) http.Handler
	legacyOK := row.Legacy && row.Refusal != 2
	switch {
	case legacyOK && row.Mounted:
		mw = authboss.MountedMiddleware(ab, true, row.Refusal == 1, row.Reqs&1 != 0, row.Reqs&2 != 0)
	case legacyOK:
		mw = authboss.Middleware(ab, row.Refusal == 1, row.Reqs&1 != 0, row.Reqs&2 != 0)
	case row.Mounted:
		mw = authboss.MountedMiddleware2(ab, true, reqs, authboss.MWRespondOnFailure(row.Refusal))
	default:
		mw = authboss.Middleware2(ab, reqs, authboss.MWRespondOnFailure(row.Refusal))
	}
	h := ab.LoadClientStateMiddleware(mw(probe))
	c08Envs[k] = h
	return h
}

type discardLogger struct{}

func (discardLogger) Info(string)  {}
func (discardLogger) Error(string) {}

func c08Run(c c08Case) *Violation {
	row := c.Row
	u, err := url.ParseRequestURI(c.RawPath)
	if err != nil || u.RawQuery != "" || !strings.HasPrefix(u.Path, "/") {
		return nil // not a request target a server would hand to a handler; generator never produces these
	}
	sess := c11State{}
	switch row.User {
	case 1:
		sess[authboss.SessionKey] = ""
	case 2:
		sess[authboss.SessionKey] = "ghost@x.io"
	case 3:
		sess[authboss.SessionKey] = "known@x.io"
	}
	if row.Half {
		sess[authboss.SessionHalfAuthKey] = "true"
	}
	if row.TwoFA {
		sess[authboss.Session2FA] = "totp"
	}
	h := c08Handler(row)
	pr := &c08Probe{}
	req := httptest.NewRequest("GET", "http://site.example/", nil)
	req.URL.Path, req.URL.RawPath, req.URL.RawQuery = u.Path, u.RawPath, c.RawQuery
	req.RequestURI = c.RawPath
	if c.RawQuery != "" {
		req.RequestURI += "?" + c.RawQuery
	}
	if row.API {
		req.Header.Set("Content-Type", "application/json")
	}
	ctx := context.WithValue(req.Context(), c08SessKey{}, sess)
	ctx = context.WithValue(ctx, c08ProbeKey{}, pr)
	req = req.WithContext(ctx)
	rr := httptest.NewRecorder()
	var pan interface{}
	func() {
		defer func() { pan = recover() }()
		h.ServeHTTP(rr, req)
	}()
	if pan != nil {
		return violation("C08", "panic", "middleware panicked: %v", pan)
	}
	ran, sawUser := pr.ran, pr.sawUser

	// ---- reference decision (from the statement, not from the code)
	reqFail := (row.Reqs&1 != 0 && row.Half) || (row.Reqs&2 != 0 && !row.TwoFA)
	hasUser := row.User >= 2
	var want string
	switch {
	case reqFail || !hasUser:
		want = "refuse"
	case row.Storage >= 2:
		want = "500"
	case row.Storage == 1 || row.User == 2:
		want = "refuse"
	default:
		want = "run"
	}
	desc := fmt.Sprintf("row=%+v", row)
	switch want {
	case "run":
		if !ran {
			return violation("C08", "not-admitted", "requirements met and user loadable but handler did not run (status %d) %s", rr.Code, desc)
		}
		if sawUser != "known@x.io" {
			return violation("C08", "user-not-loaded", "handler ran but the current user was %q %s", sawUser, desc)
		}
		return nil
	case "500":
		if ran {
			return violation("C08", "ran-on-storage-error", "handler ran although storage failed %s", desc)
		}
		if rr.Code != 500 {
			return violation("C08", "storage-error-status", "storage error answered with %d, want 500 %s", rr.Code, desc)
		}
		return nil
	}
	if ran {
		return violation("C08", "admitted", "handler ran although it had to be refused (reqFail=%v hasUser=%v) %s", reqFail, hasUser, desc)
	}
	switch row.Refusal {
	case 0:
		if rr.Code != 404 {
			return violation("C08", "refusal-status:404", "refusal answered with %d, want 404 %s", rr.Code, desc)
		}
		return nil
	case 2:
		if rr.Code != 401 {
			return violation("C08", "refusal-status:401", "refusal answered with %d, want 401 %s", rr.Code, desc)
		}
		return nil
	}
	// redirect refusal: Location header (form) or JSON location (API)
	var loc string
	if row.API {
		var m map[string]interface{}
		if rr.Code != http.StatusTemporaryRedirect || json.Unmarshal(rr.Body.Bytes(), &m) != nil {
			return violation("C08", "refusal-redirect-shape:api", "API refusal: status %d body %q %s", rr.Code, rr.Body.String(), desc)
		}
		loc, _ = m["location"].(string)
	} else {
		if rr.Code != http.StatusFound {
			return violation("C08", "refusal-redirect-shape:form", "refusal status %d, want 302 %s", rr.Code, desc)
		}
		loc = rr.Header().Get("Location")
	}
	lu, err := url.Parse(loc)
	if err != nil {
		return violation("C08", "redirect-unparsable", "redirect location %q does not parse: %v", loc, err)
	}
	if loginPage := path.Clean(row.Mount + "/login"); lu.IsAbs() || lu.Host != "" || lu.Path != loginPage {
		return violation("C08", "redirect-not-login", "redirect goes to %q, want the login page %q", loc, loginPage)
	}
	redirs, ok := lu.Query()[authboss.FormValueRedirect]
	if !ok || len(redirs) != 1 {
		return violation("C08", "redirect-no-redir", "login redirect %q carries no single redir parameter", loc)
	}
	back, err := url.Parse(redirs[0])
	// "Returns there" is judged on the escaped path: an escaped reserved character (%2F, %3B ...)
	// and the character itself name different resources; only unreserved characters may change spelling.
	wantPath := normEscapedPath(u.EscapedPath())
	gotPath := ""
	if err == nil {
		gotPath = normEscapedPath(back.EscapedPath())
	}
	if row.Mounted && row.Mount != "" {
		// Mount-pathed targets are built with path.Join (documented), which resolves dot
		// segments of the *escaped* path. A percent-encoded dot segment (%2E%2E) is one a
		// browser resolves before sending and net/http's mux redirects away; how it should
		// combine with a literal ".." is not something the property fixes: out of domain.
		for _, seg := range strings.Split(strings.ToLower(c.RawPath), "/") {
			switch seg {
			case "%2e", "%2e%2e", ".%2e", "%2e.":
				st("C08").add("inconclusive", 1)
				return nil
			}
		}
		wantPath = path.Clean(row.Mount + "/" + wantPath)
		gotPath = path.Clean(gotPath)
	}
	cls := c08PathClass(c)
	if err != nil || back.IsAbs() || back.Host != "" || back.Fragment != "" || gotPath != wantPath || back.RawQuery != c.RawQuery {
		return violation("C08", "redirect-does-not-return:"+cls,
			"request %q?%q (decoded path %q): redir=%q resolves to path %q query %q, want path %q query %q",
			c.RawPath, c.RawQuery, u.Path, redirs[0], gotPath, backQ(back), wantPath, c.RawQuery)
	}
	return nil
}

// normEscapedPath applies RFC 3986 normalisation to an escaped path: escapes of
// unreserved characters are decoded, all other escapes are kept (upper-case hex).
func normEscapedPath(p string) string {
	var sb strings.Builder
	for i := 0; i < len(p); i++ {
		if p[i] == '%' && i+2 < len(p) {
			if v, err := strconv.ParseUint(p[i+1:i+3], 16, 8); err == nil {
				c := byte(v)
				if c >= 'a' && c <= 'z' || c >= 'A' && c <= 'Z' || c >= '0' && c <= '9' || c == '-' || c == '.' || c == '_' || c == '~' {
					sb.WriteByte(c)
				} else {
					sb.WriteString("%" + strings.ToUpper(p[i+1:i+3]))
				}
				i += 2
				continue
			}
		}
		sb.WriteByte(p[i])
	}
	return sb.String()
}

func backQ(u *url.URL) string {
	if u == nil {
		return "<unparsable>"
	}
	return u.RawQuery
}

// c08PathClass names what is special about the decoded path (part of the signature).
func c08PathClass(c c08Case) string {
	u, err := url.ParseRequestURI(c.RawPath)
	if err != nil {
		return "invalid"
	}
	switch {
	case strings.ContainsAny(u.Path, "?#%"):
		return "path-has-url-metachar"
	case u.RawPath != "" || strings.ContainsAny(u.Path, " \"<>&+;=") || !isASCII(u.Path):
		return "path-needs-escaping"
	case c.RawQuery != "":
		return "with-query"
	}
	return "plain"
}

func isASCII(s string) bool {
	for i := 0; i < len(s); i++ {
		if s[i] >= 0x80 {
			return false
		}
	}
	return true
}

func c08Rows() []c08Row {
	var rows []c08Row
	for user := 0; user < 4; user++ {
		for _, half := range []bool{false, true} {
			for _, two := range []bool{false, true} {
				for reqs := 0; reqs < 4; reqs++ {
					for ref := 0; ref < 3; ref++ {
						for _, mounted := range []bool{false, true} {
							for _, mount := range c08Mounts {
								for sto := 0; sto < 6; sto++ {
									for _, api := range []bool{false, true} {
										rows = append(rows, c08Row{User: user, Half: half, TwoFA: two, Reqs: reqs, Refusal: ref,
											Mounted: mounted, Mount: mount, Storage: sto, API: api})
									}
								}
							}
						}
					}
				}
			}
		}
	}
	return rows
}

const c08Unreserved = "abcdefghijklmnopqrstuvwxyzABCDEFGHIJKLMNOPQRSTUVWXYZ0123456789-._~"

// c08GenPath builds a valid escaped request-target path from decoded bytes.
func c08GenPath(t *rapid.T) string {
	segGen := rapid.OneOf(
		rapid.StringMatching(`[a-z0-9]{1,6}`),
		rapid.StringMatching(`[a-zA-Z0-9._~-]{1,8}`),
		rapid.SampledFrom([]string{"x?y", "a#b", "50%", "a b", "a+b", "q&r=s", "é", "日本", "..", ".", "a;b", "a=b", "%41", "x%3Fy", "\"q\"", "<s>", "a:b", "@", "*", "a,b", "a\\b", "a/b", "/", "x/../y"}),
		rapid.StringOfN(rapid.Rune(), 1, 4, -1),
	)
	n := rapid.IntRange(0, 4).Draw(t, "nseg")
	var sb strings.Builder
	sb.WriteString("/p")
	for i := 0; i < n; i++ {
		seg := segGen.Draw(t, "seg")
		sb.WriteByte('/')
		encAll := rapid.IntRange(0, 5).Draw(t, "encall") == 0
		for j := 0; j < len(seg); j++ {
			b := seg[j]
			if b == 0 {
				b = '_'
			}
			// a '/' inside a segment always travels escaped (%2F): it is data, not a separator
			if !encAll && strings.IndexByte(c08Unreserved+"!$&'()*+,;=:@", b) >= 0 {
				sb.WriteByte(b)
			} else {
				fmt.Fprintf(&sb, "%%%02X", b)
			}
		}
	}
	switch rapid.IntRange(0, 7).Draw(t, "tail") {
	case 0:
		sb.WriteByte('/')
	case 1:
		sb.WriteString("//z")
	}
	return sb.String()
}

func c08GenQuery(t *rapid.T) string {
	return rapid.OneOf(
		rapid.Just(""), rapid.Just(""),
		rapid.SampledFrom([]string{"a=1", "a=1&b=2", "x=%2F&y=+z", "q=a%26b", "=", "&&", "redir=/elsewhere", "u=%E6%97%A5", "a=b=c", "k=%3F%23", "next=http://h/p", "a=1;b=2", "flag", "a=%25"}),
		rapid.StringMatching(`[a-z]{1,3}=[a-zA-Z0-9%._~+-]{0,6}(&[a-z]{1,3}=[a-z0-9]{0,4}){0,2}`).Filter(func(s string) bool {
			_, err := url.ParseQuery(s)
			return err == nil
		}),
	).Draw(t, "query")
}

func c08RowClass(r c08Row) (nontrivial bool, class string) {
	fullOK := r.Reqs&1 == 0 || !r.Half
	twoOK := r.Reqs&2 == 0 || r.TwoFA
	if r.Reqs == 3 && fullOK != twoOK {
		return true, "both-bits-one-satisfied"
	}
	return false, ""
}

func TestC08(t *testing.T) {
	s := st("C08")
	s.Exhaustive = true
	s.Rule = "every rapid case = one generated (escaped path, raw query) pair run against ALL 6912 rows of the finite table " +
		"(session user x halfauth x twofactor x requirement bits x refusal x mountPathed x Mount x storage outcome x form/JSON), alternating Middleware2 and the deprecated boolean constructors; " +
		"non-trivial = row demands both requirement bits with exactly one satisfied, or redirect refusal of a path/query that needs escaping; distinct by (row, path class, query class)"
	rows := c08Rows()
	s.Extra["table_rows"] = len(rows)
	rapid.Check(t, func(rt *rapid.T) {
		c := c08Case{RawPath: c08GenPath(rt), RawQuery: c08GenQuery(rt)}
		legacy := rapid.Bool().Draw(rt, "legacy")
		pcls := c08PathClass(c)
		qcls := "noquery"
		if c.RawQuery != "" {
			qcls = "query"
		}
		for i, row := range rows {
			row.Legacy = legacy
			c.Row = row
			v := c08Run(c)
			rnt, rcl := c08RowClass(row)
			refusedRedirect := row.Refusal == 1
			nt := rnt || (refusedRedirect && (pcls != "plain" || qcls == "query"))
			classes := []string{"path:" + pcls}
			if rcl != "" {
				classes = append(classes, rcl)
			}
			cc := c
			s.record(nt, fnv64(fmt.Sprint(i), pcls, qcls, fmt.Sprint(legacy)), classes, func() interface{} { return cc })
			if handle(rt, v, "c08", c) {
				return
			}
		}
	})
}

// FuzzC08 drives path/query bytes through the redirect rows.
func FuzzC08(f *testing.F) {
	for _, s := range []string{"/p/x", "/p/x%3Fy", "/p/a%23b", "/p/50%25", "/p//z/", "/p/%E6%97%A5", "/p/a%20b", "/p/../q"} {
		f.Add(s, "z=1")
		f.Add(s, "")
	}
	rows := c08Rows()
	var redirectRows []c08Row
	for _, r := range rows {
		if r.Refusal == 1 && r.User == 0 && r.Storage == 0 && !r.Half && !r.TwoFA && r.Reqs == 0 {
			redirectRows = append(redirectRows, r)
		}
	}
	f.Fuzz(func(t *testing.T, p, q string) {
		if !strings.HasPrefix(p, "/p") || strings.ContainsAny(q, "#\x00") {
			return
		}
		if u, err := url.ParseRequestURI(p); err != nil || u.RawQuery != "" || strings.Contains(p, "?") {
			return
		}
		for i := 0; i < len(q); i++ {
			if q[i] <= 0x20 || q[i] >= 0x7f {
				return
			}
		}
		if _, err := url.ParseQuery(q); err != nil {
			return
		}
		for _, row := range redirectRows {
			c := c08Case{Row: row, RawPath: p, RawQuery: q}
			if v := c08Run(c); v != nil {
				if isKnown(v.Prop, v.Sig) {
					continue
				}
				saveFailure(v, "c08", c)
				t.Fatalf("VIOLATION %s", v.Error())
			}
		}
	})
}

func init() {
	replayers["c08"] = func(raw json.RawMessage) (*Violation, error) {
		var c c08Case
		if err := json.Unmarshal(raw, &c); err != nil {
			return nil, err
		}
		return c08Run(c), nil
	}
}
