package props

import (
	"testing"
	"time"

	"pgregory.net/rapid"

	"verif/harness"
)

// ---- C03: locked or unconfirmed accounts cannot complete a login or use protected routes

// monC03 keeps its own idea of "locked" and "confirmed": a lock ends only by
// expiry or manual unlock, an account becomes confirmed only through its own
// genuine token. Storage is an input only where it moves in the safe direction
// (a later lock deadline, a re-started confirmation).
type monC03 struct {
	lockedUntil map[string]time.Time // stored-time coordinates (aged together with the store)
	confirmed   map[string]bool
}

func (c *monC03) Init(m *Machine) {
	c.lockedUntil, c.confirmed = map[string]time.Time{}, map[string]bool{}
	for pid, u := range m.W.Store.Snapshot().Users {
		c.lockedUntil[pid], c.confirmed[pid] = u.Locked, u.Confirmed
	}
}

// track folds one step into the model; called before the checks of that step use it
// only for steps that cannot themselves be the login under judgement (see After).
func (c *monC03) track(m *Machine, s *Step) {
	op := s.Op
	switch op.K {
	case "advance":
		d := time.Duration(op.N) * time.Second
		for pid, t := range c.lockedUntil {
			if !t.IsZero() {
				c.lockedUntil[pid] = t.Add(-d)
			}
		}
		return
	case "lock":
		// the application locked the account and was told it worked: locked for LockDuration from now,
		// whatever the stored deadline says (storage is where a broken Lock shows)
		if ka := m.KB.acct(op.A % max(1, len(m.KB.Accts))); ka != nil && s.HasAPI && s.APIErr == nil && m.C.Cfg.Has("lock") {
			if _, ok := s.Post.Users[ka.PID]; ok && op.S != "far" {
				c.lockedUntil[ka.PID] = time.Now().UTC().Add(m.W.AB.Config.Modules.LockDuration - 2*time.Second)
				m.flag("manual-lock")
				return
			}
		}
	case "unlock":
		if ka := m.KB.acct(op.A % max(1, len(m.KB.Accts))); ka != nil {
			c.lockedUntil[ka.PID] = s.Post.Users[ka.PID].Locked
		}
	case "reconfirm":
		if ka := m.KB.acct(op.A % max(1, len(m.KB.Accts))); ka != nil && m.C.Cfg.Has("confirm") {
			c.confirmed[ka.PID] = false
		}
	case "confirm":
		for pid, pre := range s.Pre.Users {
			if tokenMatches(s.Secret, pre.ConfirmSelector, pre.ConfirmVerifier) && s.Post.Users[pid].Confirmed {
				c.confirmed[pid] = true
			}
		}
	}
	for pid, post := range s.Post.Users {
		if _, known := c.lockedUntil[pid]; !known {
			// created by this step (registration, first OAuth2 login)
			c.lockedUntil[pid], c.confirmed[pid] = post.Locked, post.Confirmed
			continue
		}
		if post.Locked.After(c.lockedUntil[pid]) {
			c.lockedUntil[pid] = post.Locked
		} else if pre, had := s.Pre.Users[pid]; had && !post.Locked.Equal(pre.Locked) && !post.Locked.IsZero() && lockRewrites[s.Op.K] && post.Locked.After(stepEnd(s)) {
			// a manual lock or a failure that (re)triggers the lock sets the deadline to
			// now+LockDuration, which may be EARLIER than an operator's far ban: C04 judges
			// that deadline, here it is simply the new truth - as long as it is a deadline at all, i.e. still ahead when written
			c.lockedUntil[pid] = post.Locked
		}
		if !post.Confirmed {
			c.confirmed[pid] = false
		}
	}
}

// stepEnd: when the step's request ended (now, for steps that are not requests).
func stepEnd(s *Step) time.Time {
	if s.Resp != nil {
		return s.Resp.T1.UTC()
	}
	return time.Now().UTC()
}

// lockRewrites: ops in which the lock module itself may write a new (possibly earlier) deadline.
var lockRewrites = map[string]bool{"lock": true, "login": true, "otplogin": true, "totpvalidate": true, "smsvalidate": true}

// view returns the user as the model sees it: locked until the later of the
// stored and the modelled deadline, confirmed only if the model agrees.
func (c *monC03) view(pid string, u harness.User) harness.User {
	if t, ok := c.lockedUntil[pid]; ok && t.After(u.Locked) {
		u.Locked = t
	}
	if ok, known := c.confirmed[pid]; known && !ok {
		u.Confirmed = false
	}
	return u
}

// lockedAt: was the stored user locked throughout [t0,t1]? (definitely, inconclusive)
func lockedAt(u harness.User, t0, t1 time.Time) (locked bool, inconclusive bool) {
	a := u.Locked.After(t0.UTC())
	z := u.Locked.After(t1.UTC())
	if a != z {
		return false, true
	}
	return a, false
}

var loginFlows = map[string]string{"login": "password", "otplogin": "otp", "o2cb": "oauth2", "recend": "recover-login", "totpvalidate": "2fa-validate", "smsvalidate": "2fa-validate"}

func (c *monC03) After(m *Machine, s *Step) *Violation {
	defer c.track(m, s)
	if s.Resp == nil {
		return nil
	}
	op, r := s.Op, s.Resp
	cfg := m.C.Cfg
	// (ii) the lock / confirm middlewares
	if r.Rec.ProbeRan && (r.Rec.ProbeName == "lock" || r.Rec.ProbeName == "confirm") {
		u, ok := s.Pre.Users[r.Rec.ProbeUID]
		u = c.view(r.Rec.ProbeUID, u)
		if ok && r.Rec.ProbeName == "lock" {
			if l, inc := lockedAt(u, r.T0, r.T1); inc {
				st("C03").add("inconclusive", 1)
			} else if l {
				return violation("C03", "lock-middleware-passed-locked-user", "lock.Middleware ran the wrapped handler for %q which is locked until %v", u.PID, u.Locked)
			} else {
				m.flag("mw-passed-unlocked")
			}
		}
		if ok && r.Rec.ProbeName == "confirm" {
			if !u.Confirmed {
				return violation("C03", "confirm-middleware-passed-unconfirmed-user", "confirm.Middleware ran the wrapped handler for unconfirmed %q", u.PID)
			}
			m.flag("mw-passed-confirmed")
		}
	}
	flow, isLogin := loginFlows[op.K]
	if !isLogin {
		return nil
	}
	// a correct credential presented for a locked / unconfirmed account (non-triviality)
	if target, ok := s.Pre.Users[s.Pid]; ok && (op.K == "login" || op.K == "otplogin") {
		target = c.view(s.Pid, target)
		good := (op.K == "login" && bcryptOK(target.Password, s.Secret)) || (op.K == "otplogin" && otpInList(target.OTPs, s.Secret))
		if good && cfg.Has("lock") && target.Locked.After(r.T1.UTC()) {
			m.flag("correct-credential-while-locked")
		}
		if good && cfg.Has("confirm") && !target.Confirmed {
			m.flag("correct-credential-while-unconfirmed")
		}
	}
	before, after := r.UIDBefore(), r.UID()
	if after == "" || after == before {
		return nil
	}
	// the remember middleware may have re-authenticated a different user in this very request
	if rot := m.rotationOwner(s); rot == after {
		return nil
	}
	u, ok := s.Pre.Users[after]
	if !ok {
		return nil // created by this request (first OAuth2 login): nothing stored to be locked
	}
	if stored := u; true {
		u = c.view(after, u)
		if !u.Locked.Equal(stored.Locked) {
			m.flag("model-lock-outlives-stored-lock")
		}
	}
	if cfg.Has("lock") {
		if l, inc := lockedAt(u, r.T0, r.T1); inc {
			st("C03").add("inconclusive", 1)
		} else if l {
			return violation("C03", "login-while-locked:flow="+flow, "%s flow logged in %q although it is locked until %v (now %v)", op.K, after, u.Locked, r.T1.UTC())
		}
	}
	if cfg.Has("confirm") && op.K != "o2cb" && !u.Confirmed {
		return violation("C03", "login-while-unconfirmed:flow="+flow, "%s flow logged in %q although it is not confirmed", op.K, after)
	}
	m.flag("login-ok:" + flow)
	return nil
}

func (c *monC03) End(m *Machine) *Violation { return nil }

var kindsC03 = []wk{
	{"login", 26}, {"otplogin", 8}, {"recstart", 3}, {"recend", 5}, {"totpvalidate", 8}, {"smsvalidate", 8}, {"smsresend", 2},
	{"advance", 8}, {"newsess", 3}, {"logout", 2}, {"visit", 10}, {"lock", 6}, {"unlock", 4}, {"reconfirm", 4}, {"confirm", 4},
	{"o2start", 3}, {"o2cb", 5}, {"register", 3}, {"snip:2fa", 6}, {"snip:recover", 4}, {"snip:otp", 2}, {"snip:oauth", 6},
	{"snip:register", 3}, {"snip:remember", 3}, {"snip:lockprobe", 8}, {"snip:lockmid2fa", 4}, {"snip:oauthlock", 5}, {"snip:neighbourpw", 6},
}

var profC03 = profile{
	arbVariants: true,
	must:        []string{"auth"}, may: []string{"logout", "otp", "recover", "remember", "register", "oauth2"},
	setups: []string{"totp", "sms", "recovery"}, kinds: kindsC03, minOps: 14, maxOps: 34,
	accts: [2]int{2, 4}, browsers: [2]int{1, 2}, middlewares: []string{"", "", "remember"},
	faultPct:   8, // the vetoes are safety rules: no failed backend call may let a locked / unconfirmed account in
	jsonMangle: 4,
	tweak: func(t *rapid.T, c *harness.Config) {
		// lock and/or confirm are always present, at a generated position in the load order
		which := pick(t, "lockconfirm", "lock", "confirm", "both", "both")
		var add []string
		if which != "confirm" {
			add = append(add, "lock")
		}
		if which != "lock" {
			add = append(add, "confirm")
		}
		for _, mod := range add {
			pos := rapid.IntRange(0, len(c.Modules)).Draw(t, "pos-"+mod)
			c.Modules = append(c.Modules[:pos], append([]string{mod}, c.Modules[pos:]...)...)
		}
		c.EmailAuth = false
		c.LockAfterZero = c.Has("lock") && chance(t, "lockafterzero", 12) // boundary of the threshold option
		for i := range c.Accounts {
			a := &c.Accounts[i]
			a.Locked = c.Has("lock") && chance(t, "seedlocked", 25)
			a.Unconfirmed = c.Has("confirm") && chance(t, "seedunconf", 25)
		}
		if n := len(c.Accounts); n >= 2 && chance(t, "blanktwin", 20) {
			// identifiers are exact byte strings: "carol" and "carol " (a migrated record, a sign-up through another channel) are
			// two accounts, one healthy, its twin locked / unconfirmed - whatever is looked up for one must be judged for that one
			i := rapid.IntRange(1, n-1).Draw(t, "twin")
			pad := pick(t, "pad", " ", " ", "\n", "\t", "  ")
			c.Accounts[i].PID = c.Accounts[i-1].PID + pad
			if chance(t, "padfront", 25) {
				c.Accounts[i].PID = pad + c.Accounts[i-1].PID
			}
			if !c.Username {
				c.Accounts[i].Email = ""
			}
			c.Accounts[i].Locked, c.Accounts[i].Unconfirmed = c.Has("lock"), c.Has("confirm")
			c.Accounts[i-1].Locked, c.Accounts[i-1].Unconfirmed = false, false
		}
	},
}

func TestC03(t *testing.T) {
	st("C03").Rule = "world machine with lock and/or confirm inserted at a generated position of the module load order, accounts seeded locked/unlocked and confirmed/unconfirmed, " +
		"histories mixing correct and incorrect attempts on every login path, manual lock/unlock, re-started confirmation, lock expiry, probes behind lock.Middleware / confirm.Middleware; " +
		"non-trivial = a correct credential presented for a locked or unconfirmed account, or a protected-route probe; distinct by FNV of the abstract trace"
	runWorldProp(t, "C03", profC03, func() Monitor { return &monC03{} }, func(m *Machine) bool {
		return m.Flags["correct-credential-while-locked"] || m.Flags["correct-credential-while-unconfirmed"]
	})
}

func init() {
	replayers["world:C03"] = worldReplayer(func() Monitor { return &monC03{} })
}
