package props

import (
	"context"
	"fmt"
	"io"
	"net/http"
	"net/http/httptest"
	"os"
	"strings"
	"testing"
	"time"

	"github.com/volatiletech/authboss/v3"
	"github.com/volatiletech/authboss/v3/expire"
	"github.com/volatiletech/authboss/v3/remember"
	"pgregory.net/rapid"
)

// ---- C11: client-state changes reach the client exactly once, in order, before the body

// c11Instr is one step of a generated handler program.
type c11Instr struct {
	Op    string   `json:"op"`              // put del delall hset wh write read
	Store string   `json:"store,omitempty"` // session | cookie
	Key   string   `json:"key,omitempty"`
	Val   string   `json:"val,omitempty"`
	WL    []string `json:"wl,omitempty"` // whitelist for delall
	Code  int      `json:"code,omitempty"`
	Via   int      `json:"via,omitempty"` // which wrapper layer the call goes through (0 = outermost)
	How   string   `json:"how,omitempty"` // write only: "" Write, "copy" io.Copy from a plain reader, "copyn" io.CopyN, "wstr" io.WriteString, "fprint" fmt.Fprint
}

// plainReader hides every optional interface of the reader (WriteTo above all), so
// io.Copy has to choose between the destination's ReadFrom and a Write loop.
type plainReader struct{ r io.Reader }

func (p plainReader) Read(b []byte) (int, error) { return p.r.Read(b) }

type c11Case struct {
	Wrappers []string          `json:"wrappers"` // outermost first: "U" UnderlyingResponseWriter, "W" Unwrap, "UW" both
	Session  map[string]string `json:"session"`
	Cookies  map[string]string `json:"cookies"`
	NoCookie bool              `json:"no_cookie_store,omitempty"`
	Behind   string            `json:"behind,omitempty"`    // the handler program runs behind one of the library's own middlewares: "remember" (a valid remember cookie is presented, no session user) | "expire"
	FailOnce string            `json:"fail_once,omitempty"` // "session" | "cookie": that store's first WriteState fails (after taking the events); the handler carries on, e.g. to write an error page
	Prog     []c11Instr        `json:"prog"`
	// Chain: the program from index Chain[0] on runs inside event handlers (authboss.Events, the way
	// modules hook into each other): segment i = Prog[Chain[i]:Chain[i+1]], handler i reports
	// handled = Handled[i]. All handlers get the response writer FireAfter was called with.
	Chain   []int  `json:"chain,omitempty"`
	Handled []bool `json:"handled,omitempty"`
}

type c11Event struct {
	Seq   int
	What  string // "ws:session" "ws:cookie" "wh" "write"
	Evs   []authboss.ClientStateEvent
	State authboss.ClientState
	Code  int
	Hdr   http.Header
	Bytes string
}

type c11Log struct {
	seq    int
	events []c11Event
}

func (l *c11Log) add(e c11Event) { l.seq++; e.Seq = l.seq; l.events = append(l.events, e) }

type c11State map[string]string

func (s c11State) Get(k string) (string, bool) { v, ok := s[k]; return v, ok }

type c11Store struct {
	name     string
	log      *c11Log
	state    c11State
	failOnce bool
}

func (s *c11Store) ReadState(*http.Request) (authboss.ClientState, error) { return s.state, nil }
func (s *c11Store) WriteState(w http.ResponseWriter, st authboss.ClientState, evs []authboss.ClientStateEvent) error {
	s.log.add(c11Event{What: "ws:" + s.name, Evs: append([]authboss.ClientStateEvent(nil), evs...), State: st})
	if s.failOnce {
		s.failOnce = false
		return fmt.Errorf("%s store unavailable", s.name)
	}
	return nil
}

// c11Server: the storage the remember middleware needs (one account, its remember tokens).
type c11Server struct{ tokens map[string]bool }
type c11User struct{ pid string }

func (u *c11User) GetPID() string  { return u.pid }
func (u *c11User) PutPID(p string) { u.pid = p }
func (s *c11Server) Load(_ context.Context, key string) (authboss.User, error) {
	return &c11User{pid: key}, nil
}
func (s *c11Server) Save(context.Context, authboss.User) error { return nil }
func (s *c11Server) AddRememberToken(_ context.Context, pid, token string) error {
	s.tokens[pid+"|"+token] = true
	return nil
}
func (s *c11Server) DelRememberTokens(_ context.Context, pid string) error { return nil }
func (s *c11Server) UseRememberToken(_ context.Context, pid, token string) error {
	if !s.tokens[pid+"|"+token] {
		return authboss.ErrTokenNotFound
	}
	delete(s.tokens, pid+"|"+token)
	return nil
}

type c11Base struct {
	hdr http.Header
	log *c11Log
}

func (b *c11Base) Header() http.Header { return b.hdr }
func (b *c11Base) WriteHeader(c int)   { b.log.add(c11Event{What: "wh", Code: c, Hdr: b.hdr.Clone()}) }

// Flush: the bottom writer can flush, like net/http's (the headers leave with it).
func (b *c11Base) Flush() { b.log.add(c11Event{What: "flush", Hdr: b.hdr.Clone()}) }
func (b *c11Base) Write(p []byte) (int, error) {
	b.log.add(c11Event{What: "write", Bytes: string(p), Hdr: b.hdr.Clone()})
	return len(p), nil
}

type wrapU struct{ http.ResponseWriter }

func (w wrapU) UnderlyingResponseWriter() http.ResponseWriter { return w.ResponseWriter }

type wrapW struct{ http.ResponseWriter }

func (w wrapW) Unwrap() http.ResponseWriter { return w.ResponseWriter }

type wrapUW struct{ http.ResponseWriter }

func (w wrapUW) UnderlyingResponseWriter() http.ResponseWriter { return w.ResponseWriter }
func (w wrapUW) Unwrap() http.ResponseWriter                   { return w.ResponseWriter }

func c11Run(c c11Case) *Violation {
	log := &c11Log{}
	sess := &c11Store{name: "session", log: log, state: c11State(c.Session)}
	cook := &c11Store{name: "cookie", log: log, state: c11State(c.Cookies)}
	ab := authboss.New()
	ab.Config.Storage.SessionState = sess
	if !c.NoCookie {
		ab.Config.Storage.CookieState = cook
	}
	base := &c11Base{hdr: http.Header{}, log: log}
	sess.failOnce, cook.failOnce = c.FailOnce == "session", c.FailOnce == "cookie"
	var outer func(http.Handler) http.Handler
	switch c.Behind {
	case "remember":
		srv := &c11Server{tokens: map[string]bool{}}
		ab.Config.Storage.Server = srv
		hash, token, err := remember.GenerateToken("rick@x.io")
		if err != nil {
			return nil
		}
		srv.tokens["rick@x.io|"+hash] = true
		delete(sess.state, "uid")
		cook.state["rm"] = token
		outer = remember.Middleware(ab)
	case "expire":
		ab.Config.Modules.ExpireAfter = time.Hour
		outer = expire.Middleware(ab)
	}

	var readProblem string
	var panicked interface{}
	handler := http.HandlerFunc(func(w http.ResponseWriter, r *http.Request) {
		layers := []http.ResponseWriter{w}
		cur := w
		for i := len(c.Wrappers) - 1; i >= 0; i-- {
			switch c.Wrappers[i] {
			case "U":
				cur = wrapU{cur}
			case "W":
				cur = wrapW{cur}
			default:
				cur = wrapUW{cur}
			}
			layers = append([]http.ResponseWriter{cur}, layers...)
		}
		exec := func(in c11Instr, lw http.ResponseWriter, r *http.Request) {
			switch in.Op {
			case "put":
				if in.Store == "session" {
					authboss.PutSession(lw, in.Key, in.Val)
				} else {
					authboss.PutCookie(lw, in.Key, in.Val)
				}
			case "del":
				if in.Store == "session" {
					authboss.DelSession(lw, in.Key)
				} else {
					authboss.DelCookie(lw, in.Key)
				}
			case "delall":
				authboss.DelAllSession(lw, in.WL)
			case "hset":
				lw.Header().Set(in.Key, in.Val)
			case "wh":
				lw.WriteHeader(in.Code)
			case "flash":
				// what page layouts do: read (and thereby clear) a flash message
				if c.Behind == "" {
					if in.Key == authboss.FlashErrorKey {
						_ = authboss.FlashError(lw, r)
					} else {
						_ = authboss.FlashSuccess(lw, r)
					}
				}
			case "flush":
				// what streaming handlers do: flush if the writer they were given can
				if f, ok := lw.(http.Flusher); ok {
					f.Flush()
				}
			case "write":
				switch in.How {
				case "copy":
					_, _ = io.Copy(lw, plainReader{strings.NewReader(in.Val)})
				case "copyn":
					_, _ = io.CopyN(lw, strings.NewReader(in.Val), int64(len(in.Val)))
				case "wstr":
					_, _ = io.WriteString(lw, in.Val)
				case "fprint":
					_, _ = fmt.Fprint(lw, in.Val)
				default:
					_, _ = lw.Write([]byte(in.Val))
				}
			case "read":
				if c.Behind != "" {
					break // the library's middleware overlays the request's view of the session (half-auth, hidden expired values)
				}
				var got string
				var ok bool
				var want string
				var wok bool
				if in.Store == "session" {
					got, ok = authboss.GetSession(r, in.Key)
					want, wok = c.Session[in.Key]
				} else {
					got, ok = authboss.GetCookie(r, in.Key)
					want, wok = c.Cookies[in.Key]
					if c.NoCookie {
						want, wok = "", false
					}
				}
				if got != want || ok != wok {
					readProblem = fmt.Sprintf("read %s[%q] = %q,%v; request-start value %q,%v", in.Store, in.Key, got, ok, want, wok)
				}
			}
		}
		direct := len(c.Prog)
		if len(c.Chain) > 0 && c.Chain[0] <= len(c.Prog) {
			direct = c.Chain[0]
		}
		if c.FailOnce != "" {
			// a handler that survives the failed write (WriteHeader panics on it, Write returns the error) and goes on
			inner := exec
			exec = func(in c11Instr, lw http.ResponseWriter, r *http.Request) {
				defer func() { _ = recover() }()
				inner(in, lw, r)
			}
		}
		for _, in := range c.Prog[:direct] {
			exec(in, layers[in.Via%len(layers)], r)
		}
		if direct < len(c.Prog) || len(c.Chain) > 0 {
			for i := range c.Chain {
				from, to := c.Chain[i], len(c.Prog)
				if i+1 < len(c.Chain) {
					to = c.Chain[i+1]
				}
				if from > len(c.Prog) || to > len(c.Prog) || from > to {
					continue
				}
				seg, handled := c.Prog[from:to], i < len(c.Handled) && c.Handled[i]
				ab.Events.After(authboss.EventAuth, func(hw http.ResponseWriter, hr *http.Request, _ bool) (bool, error) {
					for _, in := range seg {
						exec(in, hw, hr)
					}
					return handled, nil
				})
			}
			_, _ = ab.Events.FireAfter(authboss.EventAuth, layers[0], r)
		}
	})
	func() {
		defer func() { panicked = recover() }()
		req := httptest.NewRequest("GET", "/x", nil).WithContext(context.Background())
		var h http.Handler = handler
		if outer != nil {
			h = outer(h)
		}
		ab.LoadClientStateMiddleware(h).ServeHTTP(base, req)
	}()
	if panicked != nil {
		return violation("C11", "panic", "handler program panicked: %v", panicked)
	}
	if readProblem != "" {
		return violation("C11", "read-not-request-start", "%s", readProblem)
	}
	if c.FailOnce != "" {
		// with a store failing the statement promises nothing about completeness; "nothing is delivered twice" stands
		n := map[string]int{}
		for _, e := range log.events {
			if strings.HasPrefix(e.What, "ws:") {
				n[e.What]++
			}
		}
		for what, k := range n {
			if k > 1 {
				return violation("C11", "delivered-twice:"+strings.TrimPrefix(what, "ws:")+":after-store-failure", "after the %s store's WriteState failed once, the %s store was handed its events %d times", c.FailOnce, strings.TrimPrefix(what, "ws:"), k)
			}
		}
		return nil
	}

	// ---- oracle: expected deliveries derived from the program alone
	var wantS, wantC []authboss.ClientStateEvent
	firstWrite := -1
	// a flush only matters if the writer handed to the handler passes it on (the library's does not today):
	// then it releases the headers like a write does
	flushReached := false
	for _, e := range log.events {
		flushReached = flushReached || e.What == "flush"
	}
	for i, in := range c.Prog {
		if in.Op == "wh" || in.Op == "write" || (in.Op == "flush" && flushReached) {
			firstWrite = i
			break
		}
		var ev authboss.ClientStateEvent
		switch in.Op {
		case "put":
			ev = authboss.ClientStateEvent{Kind: authboss.ClientStateEventPut, Key: in.Key, Value: in.Val}
		case "del":
			ev = authboss.ClientStateEvent{Kind: authboss.ClientStateEventDel, Key: in.Key}
		case "delall":
			ev = authboss.ClientStateEvent{Kind: authboss.ClientStateEventDelAll, Key: strings.Join(in.WL, ",")}
		case "flash":
			// reading a flash message deletes it - if the REQUEST carried one (what was queued in this response does not count)
			if _, had := c.Session[in.Key]; !had || c.Behind != "" {
				continue
			}
			ev = authboss.ClientStateEvent{Kind: authboss.ClientStateEventDel, Key: in.Key}
			wantS = append(wantS, ev)
			continue
		default:
			continue
		}
		if in.Store == "session" || in.Op == "delall" {
			wantS = append(wantS, ev)
		} else {
			wantC = append(wantC, ev)
		}
	}
	if c.NoCookie {
		wantC = nil
	}
	var gotS, gotC [][]authboss.ClientStateEvent
	firstRelease := 0
	lastDelivery := 0
	for _, e := range log.events {
		switch e.What {
		case "ws:session":
			gotS = append(gotS, e.Evs)
			lastDelivery = e.Seq
			if st, ok := e.State.(c11State); !ok || fmt.Sprint(st) != fmt.Sprint(sess.state) {
				return violation("C11", "wrong-state-object:session", "session WriteState received a state that is not the session state read at request start")
			}
		case "ws:cookie":
			gotC = append(gotC, e.Evs)
			lastDelivery = e.Seq
			if st, ok := e.State.(c11State); !ok || fmt.Sprint(st) != fmt.Sprint(cook.state) {
				return violation("C11", "wrong-state-object:cookie", "cookie WriteState received a state that is not the cookie state read at request start")
			}
		case "wh", "write", "flush":
			if firstRelease == 0 {
				firstRelease = e.Seq
			}
		}
	}
	if firstWrite < 0 {
		if len(gotS)+len(gotC) > 0 && c.Behind == "" {
			return violation("C11", "delivered-without-write", "program never wrote, yet %d deliveries happened", len(gotS)+len(gotC))
		}
		return nil
	}
	check := func(name string, want []authboss.ClientStateEvent, got [][]authboss.ClientStateEvent) *Violation {
		if c.Behind != "" {
			// the middleware in front queued changes of its own first: the program's changes are the tail of the one delivery
			if len(got) > 1 {
				return violation("C11", "delivered-twice:"+name+":behind-"+c.Behind, "%s store received %d deliveries", name, len(got))
			}
			if len(want) == 0 {
				return nil
			}
			if len(got) == 0 || len(got[0]) < len(want) {
				return violation("C11", "lost:"+name+":behind-"+c.Behind, "behind the %s middleware, %d %s changes the handler made before its first write were not (all) delivered: got %v", c.Behind, len(want), name, got)
			}
			tail := got[0][len(got[0])-len(want):]
			for i := range want {
				if tail[i] != want[i] {
					return violation("C11", "wrong-events:"+name+":behind-"+c.Behind, "behind the %s middleware the %s store's delivery ends with %v, the handler made %v", c.Behind, name, tail, want)
				}
			}
			return nil
		}
		if len(want) == 0 {
			if len(got) != 0 {
				return violation("C11", "unexpected-delivery:"+name, "%s store received %v although no %s change was made before the first write", name, got, name)
			}
			return nil
		}
		if len(got) == 0 {
			return violation("C11", "lost:"+name, "%d %s changes made before the first write were never delivered", len(want), name)
		}
		if len(got) > 1 {
			return violation("C11", "delivered-twice:"+name, "%s store received %d deliveries", name, len(got))
		}
		if len(got[0]) != len(want) {
			return violation("C11", "wrong-events:"+name, "%s store got %v want %v", name, got[0], want)
		}
		for i := range want {
			if got[0][i] != want[i] {
				return violation("C11", "wrong-events:"+name, "%s store event %d: got %+v want %+v", name, i, got[0][i], want[i])
			}
		}
		return nil
	}
	if v := check("session", wantS, gotS); v != nil {
		return v
	}
	if v := check("cookie", wantC, gotC); v != nil {
		return v
	}
	if lastDelivery != 0 && firstRelease != 0 && lastDelivery > firstRelease {
		return violation("C11", "released-before-state", "a header/body release (seq %d) preceded a client-state delivery (seq %d)", firstRelease, lastDelivery)
	}
	// The base writer must see every write the program made, in order.
	wi := 0
	for _, in := range c.Prog {
		if in.Op != "wh" && in.Op != "write" {
			continue
		}
		for wi < len(log.events) && !(log.events[wi].What == "wh" || log.events[wi].What == "write") {
			wi++
		}
		if wi >= len(log.events) {
			return violation("C11", "write-lost", "program write %v never reached the underlying writer", in)
		}
		e := log.events[wi]
		if (in.Op == "wh" && (e.What != "wh" || e.Code != in.Code)) || (in.Op == "write" && (e.What != "write" || e.Bytes != in.Val)) {
			return violation("C11", "write-altered", "program write %+v reached the underlying writer as %s code=%d bytes=%q", in, e.What, e.Code, e.Bytes)
		}
		wi++
	}
	return nil
}

var c11Keys = []string{"uid", "halfauth", "rm", "k1", "k2", "flash_success", "flash_success", "flash_error"}

func c11Gen(t *rapid.T) c11Case {
	var c c11Case
	c.Wrappers = rapid.SliceOfN(rapid.SampledFrom([]string{"U", "W", "UW"}), 0, 3).Draw(t, "wrappers")
	kv := rapid.MapOfN(rapid.SampledFrom(c11Keys), rapid.StringMatching(`[a-z0-9;=]{0,4}`), 0, 4)
	c.Session = kv.Draw(t, "session")
	c.Cookies = kv.Draw(t, "cookies")
	c.NoCookie = rapid.IntRange(0, 19).Draw(t, "nocookie") == 0
	if f := rapid.IntRange(0, 39).Draw(t, "failonce"); f < 2 {
		c.FailOnce = []string{"session", "cookie"}[f]
	} else if f < 8 && !c.NoCookie {
		c.Behind = []string{"remember", "remember", "expire"}[f%3]
	}
	nPre := rapid.IntRange(0, 8).Draw(t, "npre")
	n := nPre + rapid.IntRange(0, 8).Draw(t, "npost")
	preOps := []string{"put", "put", "put", "del", "del", "delall", "hset", "read", "flush", "flash"}
	allOps := []string{"put", "put", "del", "delall", "hset", "wh", "write", "write", "wh", "read", "flush", "flash"}
	for i := 0; i < n; i++ {
		var in c11Instr
		in.Via = rapid.IntRange(0, 3).Draw(t, "via")
		ops := allOps
		if i < nPre {
			ops = preOps
		}
		switch rapid.SampledFrom(ops).Draw(t, "op") {
		case "put":
			in.Op, in.Store = "put", rapid.SampledFrom([]string{"session", "cookie"}).Draw(t, "store")
			in.Key = rapid.SampledFrom(c11Keys).Draw(t, "key")
			in.Val = rapid.StringMatching(`[a-z0-9,;= ]{0,6}`).Draw(t, "val")
		case "del":
			in.Op, in.Store = "del", rapid.SampledFrom([]string{"session", "cookie"}).Draw(t, "store")
			in.Key = rapid.SampledFrom(c11Keys).Draw(t, "key")
		case "delall":
			in.Op, in.Store = "delall", "session"
			in.WL = rapid.SliceOfNDistinct(rapid.SampledFrom(c11Keys), 0, 3, rapid.ID[string]).Draw(t, "wl")
		case "hset":
			in.Op = "hset"
			in.Key = rapid.SampledFrom([]string{"X-A", "Content-Type", "Location"}).Draw(t, "hk")
			in.Val = rapid.StringMatching(`[a-z/]{1,6}`).Draw(t, "hv")
		case "wh":
			in.Op, in.Code = "wh", rapid.SampledFrom([]int{200, 204, 302, 307, 404, 500, 200, 302, 100, 102, 103}).Draw(t, "code")
		case "write":
			in.Op, in.Val = "write", rapid.StringMatching(`[a-z]{0,5}`).Draw(t, "body")
			if in.Val != "" && rapid.IntRange(0, 9).Draw(t, "how") < 3 {
				// the ways handlers really produce a body: streaming a file / upstream response, string helpers
				in.How = rapid.SampledFrom([]string{"copy", "copy", "copyn", "wstr", "fprint"}).Draw(t, "howkind")
			}
		case "read":
			in.Op, in.Store = "read", rapid.SampledFrom([]string{"session", "cookie"}).Draw(t, "store")
			in.Key = rapid.SampledFrom(c11Keys).Draw(t, "key")
		case "flush":
			in.Op = "flush"
		case "flash":
			in.Op, in.Store = "flash", "session"
			in.Key = rapid.SampledFrom([]string{authboss.FlashSuccessKey, authboss.FlashSuccessKey, authboss.FlashErrorKey}).Draw(t, "flashkey")
		}
		c.Prog = append(c.Prog, in)
	}
	// the tail of the program runs inside 1-3 chained event handlers (modules hooking into each other)
	if len(c.Prog) >= 2 && rapid.IntRange(0, 9).Draw(t, "chain") < 3 {
		k := rapid.IntRange(1, 3).Draw(t, "nhandlers")
		at := rapid.IntRange(0, len(c.Prog)-1).Draw(t, "chainat")
		for i := 0; i < k && at <= len(c.Prog); i++ {
			c.Chain = append(c.Chain, at)
			c.Handled = append(c.Handled, rapid.Bool().Draw(t, "handled"))
			at += rapid.IntRange(0, 3).Draw(t, "seglen")
			if at > len(c.Prog) {
				at = len(c.Prog)
			}
		}
	}
	// a streaming handler: the body goes out in very many pieces ("however many times the handler
	// writes"); 2% of the programs, the 16-bit range only in the thorough tier
	if r := rapid.IntRange(0, 999).Draw(t, "streamtail"); r >= 980 {
		tail := []int{255, 256, 257, 300, 513, 1000}[r%6]
		if r == 999 && os.Getenv("VERIF_TIER") == "thorough" {
			tail = 66000
		}
		via := rapid.IntRange(0, 3).Draw(t, "tailvia")
		for i := 0; i < tail; i++ {
			c.Prog = append(c.Prog, c11Instr{Op: "write", Via: via, Val: "r"})
		}
	}
	return c
}

func c11Classify(c c11Case) (nontrivial bool, fp uint64, classes []string) {
	f := newFP()
	ns, nc, nw := 0, 0, 0
	seenWrite := false
	after := false
	for _, w := range c.Wrappers {
		f.add("w" + w)
	}
	for _, in := range c.Prog {
		f.add(in.Op, in.Store)
		switch in.Op {
		case "put", "del", "delall":
			if seenWrite {
				after = true
			} else if in.Store == "session" {
				ns++
			} else {
				nc++
			}
		case "wh", "write":
			seenWrite = true
			nw++
		}
	}
	nontrivial = ns >= 2 && nc >= 2 && nw >= 2
	if len(c.Wrappers) > 0 {
		classes = append(classes, "wrapped")
	}
	if after {
		classes = append(classes, "change-after-first-write")
	}
	if nw == 0 {
		classes = append(classes, "never-writes")
	}
	if nw >= 2 {
		classes = append(classes, "writes>=2")
	}
	if c.NoCookie {
		classes = append(classes, "no-cookie-store")
	}
	return nontrivial, f.h, classes
}

func TestC11(t *testing.T) {
	s := st("C11")
	s.Rule = "handler programs drawn by rapid over {put,del,delall}x{session,cookie}, header sets, WriteHeader, Write, reads, behind 0-3 nested wrappers; non-trivial = >=2 changes on each store before the first write and >=2 writes; distinct by FNV of the (op,store,wrapper) sequence"
	rapid.Check(t, func(rt *rapid.T) {
		c := c11Gen(rt)
		nt, fp, cl := c11Classify(c)
		v := c11Run(c)
		s.record(nt, fp, cl, func() interface{} { return c })
		handle(rt, v, "c11", c)
	})
}

// c11Decode turns fuzz bytes into a program (the "arbitrary" layer).
func c11Decode(data []byte) c11Case {
	var c c11Case
	c.Session = map[string]string{"uid": "u", "k1": "v"}
	c.Cookies = map[string]string{"rm": "c"}
	if len(data) == 0 {
		return c
	}
	nw := int(data[0] % 4)
	for i := 0; i < nw; i++ {
		c.Wrappers = append(c.Wrappers, []string{"U", "W", "UW"}[int(data[0]>>2+byte(i))%3])
	}
	data = data[1:]
	for len(data) >= 2 && len(c.Prog) < 40 {
		a, b := data[0], data[1]
		data = data[2:]
		in := c11Instr{Via: int(b >> 6)}
		key := c11Keys[int(b)%len(c11Keys)]
		store := "session"
		if b&0x20 != 0 {
			store = "cookie"
		}
		switch a % 8 {
		case 0, 1:
			in.Op, in.Store, in.Key, in.Val = "put", store, key, fmt.Sprintf("v%d", b%5)
		case 2:
			in.Op, in.Store, in.Key = "del", store, key
		case 3:
			in.Op, in.Store = "delall", "session"
			if b&1 != 0 {
				in.WL = []string{key}
			}
		case 4:
			in.Op, in.Key, in.Val = "hset", "X-A", "v"
		case 5:
			in.Op, in.Code = "wh", []int{200, 302, 404, 500}[b%4]
		case 6:
			in.Op, in.Val = "write", fmt.Sprintf("b%d", b%3)
		case 7:
			in.Op, in.Store, in.Key = "read", store, key
		}
		c.Prog = append(c.Prog, in)
	}
	return c
}

func FuzzC11(f *testing.F) {
	f.Add([]byte{0})
	f.Add([]byte{1, 0, 1, 0, 33, 5, 0, 6, 1, 6, 2})
	f.Add([]byte{7, 0, 0, 0, 32, 3, 1, 2, 33, 5, 1, 0, 2, 6, 0, 5, 2, 6, 1})
	f.Fuzz(func(t *testing.T, data []byte) {
		c := c11Decode(data)
		if v := c11Run(c); v != nil {
			if isKnown(v.Prop, v.Sig) {
				return
			}
			saveFailure(v, "c11", c)
			t.Fatalf("VIOLATION %s", v.Error())
		}
	})
}
