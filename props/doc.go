// Package props holds one generated check per property (TestC01 … TestC20),
// the byte-level fuzz targets and the rapid-free replay entry points.
package props
