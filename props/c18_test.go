package props

import (
	"encoding/base64"
	"encoding/json"
	"fmt"
	"os"
	"strings"
	"testing"

	"github.com/volatiletech/authboss/v3"
	"pgregory.net/rapid"

	"verif/harness"
)

// ---- C18: backend failures never panic, fake success or weaken security state

type monC18 struct {
	spent map[string]string // secret -> kind, marked when an acceptance was observed
	// "a failed request never makes a rejected credential acceptable": whether a second-factor
	// code is one of the account's own is judged by C02's oracle, over the faulted history
	second     monC02
	faultsSeen int
}

func (c *monC18) Init(m *Machine) {
	c.spent = map[string]string{}
	c.second.Init(m)
}

func shownCodes(r *harness.Resp) []string {
	var out []string
	if r.JSON == nil {
		return nil
	}
	if codes, ok := r.JSON["recovery_codes"].([]interface{}); ok {
		for _, x := range codes {
			if s, ok := x.(string); ok {
				out = append(out, s)
			}
		}
	}
	return out
}

func (c *monC18) After(m *Machine, s *Step) *Violation {
	if s.Op.K == "updpw" && s.HasAPI && s.APIFired != "" {
		// Authboss.UpdatePassword under a backend failure: an error, or everything it promises is done
		c.faultsSeen++
		m.flag("fault-fired:" + s.APIFired)
		if s.Op.FA >= 2 {
			m.flag("fault-at-call>=2")
		}
		if s.APIErr == nil {
			return violation("C18", "backend-error-swallowed:updpw:fault="+s.APIFired, "UpdatePassword: backend call %s failed, yet it returned nil (remember tokens of the account still stored: %d)", s.APIFired, len(s.Post.Tokens[m.pidOf(s.Op.A)]))
		}
	}
	if s.Resp == nil {
		return nil
	}
	op, r := s.Op, s.Resp
	if v := c.second.After(m, s); v != nil && strings.Contains(v.Sig, "completed-with-foreign-code") && c.faultsSeen > 0 {
		return violation("C18", "foreign-code-accepted-after-failed-request:"+op.K, "after %d request(s) with a failed backend call: %s", c.faultsSeen, v.Detail)
	}
	fault := "none"
	if r.Fired != "" {
		c.faultsSeen++
		fault = r.Fired
		m.flag("fault-fired:" + r.Fired)
		if op.FA >= 2 {
			m.flag("fault-at-call>=2")
		}
	}
	sig := func(rule string) string { return rule + ":" + op.K + ":fault=" + fault }
	// (1) never a panic (lock/confirm middlewares are documented to panic when the user cannot be loaded)
	if r.Panic != nil {
		documented := op.K == "visit" && (op.S == "/p/lock" || op.S == "/p/confirm")
		if !documented {
			return violation("C18", sig("panic"), "%s request panicked with backend fault at call %d (%s, %s): %v", op.K, op.FA, r.Fired, op.FK, r.Panic)
		}
		return nil
	}
	// (0) a backend error inside a module handler ends the request with an error outcome
	if r.Fired != "" && op.FK == "generic" && r.Fired != "MailRender" && r.Fired != "MailSend" && r.Rec.HandlerRan && op.FA > r.Rec.CallsBeforeHandler &&
		r.Rec.HandlerErr == nil && r.Panic == nil && r.Status < 500 &&
		// logout looks the user up only to name it in its log line and logs out whoever it is
		!(op.K == "logout" && r.Fired == "Load") {
		return violation("C18", sig("backend-error-swallowed"), "%s request: backend call %d (%s) failed inside the module handler, yet the request ended without an error outcome (status %d, location %q)", op.K, op.FA, r.Fired, r.Status, r.Location)
	}
	// (0b) a request that ended in an error never lifts a lock or confirms an account: the credentials
	// those states were refusing would be acceptable again
	if r.Fired != "" && (r.Rec.HandlerErr != nil || r.Status >= 500) {
		for pid, pre := range s.Pre.Users {
			po, ok := s.Post.Users[pid]
			if !ok {
				continue
			}
			if pre.Locked.After(r.T1.UTC()) && !po.Locked.After(r.T1.UTC()) {
				return violation("C18", sig("failed-request-lifted-lock"), "%s request failed (backend call %d, %s) yet %q, locked until %v before it, is no longer locked (now until %v, attempts %d -> %d)", op.K, op.FA, r.Fired, pid, pre.Locked, po.Locked, pre.AttemptCount, po.AttemptCount)
			}
			// (a confirm request whose token was good and saved may still fail afterwards, on its way out)
			if !pre.Confirmed && po.Confirmed && op.K != "confirm" {
				return violation("C18", sig("failed-request-confirmed-account"), "%s request failed (backend call %d, %s) yet %q is confirmed now", op.K, op.FA, r.Fired, pid)
			}
		}
	}
	before, after := r.UIDBefore(), r.UID()
	loggedIn := after != "" && after != before
	post := s.Post
	actor := before // the user the request acted for (a remember cookie may have re-authenticated it in this request)
	if actor == "" {
		actor = after
	}

	// (2) success is only reported for changes that are in storage
	switch op.K {
	case "register":
		if (loggedIn && after == s.Pid) || strings.HasPrefix(r.Location, "/ok/register") {
			if _, ok := post.Users[s.Pid]; !ok {
				return violation("C18", sig("success-without-save"), "registration of %q reported success (location %q, session %q) but the user is not in storage", s.Pid, r.Location, after)
			}
		}
	case "confirm":
		if strings.HasPrefix(r.Location, "/ok/confirm") {
			owner := ""
			for pid, u := range s.Pre.Users {
				if tokenMatches(s.Secret, u.ConfirmSelector, u.ConfirmVerifier) {
					owner = pid
				}
			}
			if owner == "" || !post.Users[owner].Confirmed {
				return violation("C18", sig("success-without-save"), "confirmation reported success but %q is not confirmed in storage", owner)
			}
		}
	case "recend":
		if strings.HasPrefix(r.Location, "/ok/recover") || loggedIn {
			ok := false
			for pid, u := range s.Pre.Users {
				if tokenMatches(s.Secret, u.RecoverSelector, u.RecoverVerifier) {
					pu := post.Users[pid]
					ok = bcryptOK(pu.Password, op.S) && pu.RecoverSelector == ""
				}
			}
			if !ok && m.rotationOwner(s) != after {
				return violation("C18", sig("success-without-save"), "password recovery reported success (location %q, session %q) but storage does not hold the new password with the token cleared", r.Location, after)
			}
			// the reset also promises that remember tokens issued before it are gone
			if m.C.Cfg.Has("remember") {
				for pid, u := range s.Pre.Users {
					if !tokenMatches(s.Secret, u.RecoverSelector, u.RecoverVerifier) {
						continue
					}
					for _, old := range s.Pre.Tokens[pid] {
						for _, now := range post.Tokens[pid] {
							if old == now {
								return violation("C18", sig("success-without-save")+":remember-tokens", "password recovery of %q reported success (location %q, session %q) but a remember token issued before it is still in storage", pid, r.Location, after)
							}
						}
					}
				}
			}
		}
	case "otpadd":
		if r.JSON != nil {
			if o, ok := r.JSON["otp"].(string); ok && o != "" && !otpInList(post.Users[actor].OTPs, o) {
				return violation("C18", sig("success-without-save"), "a new one-time password was shown to %q but is not in storage", actor)
			}
		}
	case "otpclear":
		if r.JSON != nil && r.JSON["otp_count"] == "0" && r.Rec.HandlerErr == nil && post.Users[actor].OTPs != "" {
			return violation("C18", sig("success-without-save"), "clearing reported zero one-time passwords for %q but storage still holds some", before)
		}
	case "totpconfirm", "smsconfirm", "regen":
		if codes := shownCodes(r); len(codes) > 0 {
			u := post.Users[actor]
			for _, cd := range codes {
				if !recoveryInList(u.RecoveryCodes, cd) {
					return violation("C18", sig("success-without-save"), "%s showed new recovery codes to %q that storage does not verify", op.K, before)
				}
			}
			if op.K == "totpconfirm" && u.TOTPSecretKey != r.SessBefore["totp_secret"] {
				return violation("C18", sig("success-without-save"), "TOTP enrolment of %q reported success but the secret is not stored", before)
			}
			if op.K == "smsconfirm" && u.SMSPhone != r.SessBefore["sms_number"] {
				return violation("C18", sig("success-without-save"), "SMS enrolment of %q reported success but the number is not stored", before)
			}
		}
	case "totpremove", "smsremove":
		if r.Rec.HandlerErr == nil && r.Rec.HandlerRan && r.Status == 200 && r.JSON != nil && r.JSON["error"] == nil && r.JSON["errors"] == nil && r.JSON["status"] == "success" && s.Secret != "" {
			u := post.Users[actor]
			if (op.K == "totpremove" && u.TOTPSecretKey != "") || (op.K == "smsremove" && u.SMSPhone != "") {
				return violation("C18", sig("success-without-save"), "%s reported success for %q but the factor is still stored", op.K, before)
			}
		}
	}
	// a mailed token must be one that storage knows (otherwise the mail reports a change that was not saved)
	for _, ml := range r.Mails {
		if sel := selectorOf(ml.Token); sel != "" {
			known := false
			for _, u := range post.Users {
				if u.ConfirmSelector == sel || u.RecoverSelector == sel {
					known = true
				}
			}
			if !known {
				return violation("C18", sig("mailed-token-not-saved"), "a token was mailed to %v although its selector is not in storage", ml.To)
			}
		}
	}

	// (3) a session obtained through a one-time credential implies its consumption was saved
	// (not when the remember middleware issued the session on the way into this request)
	byCookie := loggedIn && before == "" && m.rotationOwner(s) == after
	if (loggedIn && !byCookie) || (r.SessAfter["totp_pending"] != r.SessBefore["totp_pending"] && r.SessAfter["totp_pending"] != "") || (r.SessAfter["sms_pending"] != r.SessBefore["sms_pending"] && r.SessAfter["sms_pending"] != "") {
		who := after
		if !loggedIn {
			who = r.SessAfter["totp_pending"] + r.SessAfter["sms_pending"]
		}
		switch op.K {
		case "otplogin":
			pre := s.Pre.Users[who]
			if otpInList(pre.OTPs, s.Secret) && strings.Count(pre.OTPs, harness.OTPHash(s.Secret)) == 1 && otpInList(post.Users[who].OTPs, s.Secret) {
				return violation("C18", sig("session-without-consumption"), "otp login issued a session/pending login for %q but the one-time password is still in storage", who)
			}
		case "totpvalidate", "smsvalidate":
			if op.F && s.Secret != "" && recoveryInList(s.Pre.Users[who].RecoveryCodes, s.Secret) && recoveryInList(post.Users[who].RecoveryCodes, s.Secret) {
				return violation("C18", sig("session-without-consumption"), "2FA login of %q by recovery code issued a session but the code is still in storage", who)
			}
			// (a session that the remember middleware issued on the way in says nothing about the code)
			if op.K == "totpvalidate" && !op.F && m.C.Cfg.OneTimeTOTP && loggedIn && m.rotationOwner(s) != after && post.Users[who].TOTPLastCode != strings.TrimSpace(s.Secret) {
				return violation("C18", sig("session-without-consumption")+":totp-last-code", "with replay protection on, TOTP login of %q issued a session but the used code was not saved as spent (stored last code %q)", who, post.Users[who].TOTPLastCode)
			}
		case "recend":
			if u, ok := post.Users[who]; ok && tokenMatches(s.Secret, u.RecoverSelector, u.RecoverVerifier) {
				return violation("C18", sig("session-without-consumption"), "recover-and-login issued a session for %q but the recovery token is still in storage", who)
			}
		}
		ownCred, _ := credTruth(m, s, after)
		if rot := m.rotationOwner(s); rot != "" && rot == after && loggedIn && !ownCred {
			if raw, err := base64.URLEncoding.DecodeString(r.CookBefore["rm"]); err == nil {
				h := storedCookieHash(string(raw))
				for _, t := range post.Tokens[rot] {
					if t == h {
						return violation("C18", sig("session-without-consumption"), "re-authentication of %q by remember cookie issued a session but the used token is still in storage", rot)
					}
				}
			}
		}
	}

	// (4) monotonicity: what was accepted once is never accepted again
	accept := func(kind string) *Violation {
		if s.Secret == "" {
			return nil
		}
		key := kind + "|" + s.Secret
		if prev, was := c.spent[key]; was {
			return violation("C18", "spent-credential-accepted-again:"+kind, "a %s that was already used (%s) was accepted again by %s (fault %s)", kind, prev, op.K, fault)
		}
		c.spent[key] = fmt.Sprintf("step %d", s.I)
		return nil
	}
	// a re-authentication by remember cookie that met a backend failure inside the rotation (consuming the old token,
	// storing the new one) did not happen: the request is nobody's, and must not be served as the cookie's user
	if before == "" && (r.Fired == "UseRememberToken" || r.Fired == "AddRememberToken") && len(r.Calls) > 0 && r.Calls[0] == "UseRememberToken" &&
		(op.K == "visit" || op.K == "regen" || op.K == "totpsetup" || op.K == "smssetup") {
		firedRotation := r.Fired == "UseRememberToken" || (len(r.Calls) > 1 && r.Calls[1] == "AddRememberToken" && strings.Count(strings.Join(r.Calls, ","), "AddRememberToken") == 1)
		if firedRotation {
			m.flag("rotation-failed")
			if r.Rec.ProbeRan && r.Rec.ProbeName != "open" && r.Rec.ProbeName != "" {
				return violation("C18", sig("failed-remember-reauth-served-as-user")+":"+r.Rec.ProbeName, "the remember rotation failed at %s, yet the protected probe %s ran (saw user %q, fully authed %v)", r.Fired, r.Rec.ProbeName, r.Rec.ProbeUID, r.Rec.ProbeFull)
			}
			if r.Rec.HandlerRan && op.K != "visit" {
				return violation("C18", sig("failed-remember-reauth-served-as-user")+":"+op.K, "the remember rotation failed at %s, yet the %s handler (a route for logged-in users) ran", r.Fired, op.K)
			}
		}
	}
	// a remember cookie is spent as soon as storage consumed its token - also when the request then
	// failed (the replacement could not be stored): it must not open a session later
	if rot := m.rotationOwner(s); rot != "" && before == "" {
		if raw, err := base64.URLEncoding.DecodeString(r.CookBefore["rm"]); err == nil && len(raw) > 0 {
			key := "remember-cookie|" + string(raw)
			own, _ := credTruth(m, s, after)
			switch {
			case loggedIn && after == rot && !own:
				if prev, was := c.spent[key]; was {
					return violation("C18", "spent-credential-accepted-again:remember-cookie", "a remember cookie whose token storage had already consumed (%s) re-authenticated %q (fault %s)", prev, rot, fault)
				}
				c.spent[key] = fmt.Sprintf("step %d", s.I)
			case len(r.Calls) > 0 && r.Calls[0] == "UseRememberToken" && r.Fired != "UseRememberToken":
				c.spent[key] = fmt.Sprintf("step %d, consumed by a request that then failed at %s", s.I, r.Fired)
			}
		}
	}
	switch op.K {
	case "otplogin":
		if loggedIn && after == s.Pid && otpInList(s.Pre.Users[s.Pid].OTPs, s.Secret) && strings.Count(s.Pre.Users[s.Pid].OTPs, harness.OTPHash(s.Secret)) == 1 {
			return accept("otp")
		}
	case "confirm":
		if strings.HasPrefix(r.Location, "/ok/confirm") {
			if raw, err := base64.URLEncoding.DecodeString(s.Secret); err == nil {
				s.Secret = string(raw)
				return accept("confirm-token")
			}
		}
	case "recend":
		if strings.HasPrefix(r.Location, "/ok/recover") || (loggedIn && m.rotationOwner(s) != after) {
			if raw, err := base64.URLEncoding.DecodeString(s.Secret); err == nil {
				s.Secret = string(raw)
				return accept("recover-token")
			}
		}
	case "totpvalidate", "smsvalidate":
		if op.F && loggedIn && recoveryInList(s.Pre.Users[after].RecoveryCodes, s.Secret) {
			s.Secret = after + "/" + s.Secret
			return accept("recovery-code")
		}
	}
	return nil
}

func (c *monC18) End(m *Machine) *Violation { return nil }

// ---- scripted scenarios: every route and middleware -------------------------------------------

type c18Scenario struct {
	Name    string
	Setup   []Op
	Target  Op
	After   []Op
	Min     bool // minimal configuration: no lock/confirm/remember, no TOTP replay protection (fewer later saves that could mask a lost one)
	OneTime bool // with Min: keep TOTP replay protection on
	MailGo  bool // Modules.MailNoGoroutine left at its default (false): the library sends mails from goroutines of its own
}

func c18Cfg(err500 bool, emailAuth bool) harness.Config {
	return harness.Config{Seed: 18, Modules: []string{"auth", "confirm", "lock", "logout", "oauth2", "otp", "recover", "register", "remember"},
		Setups: []string{"totp", "sms", "recovery", "expire"}, Mount: "/auth", JSON: true, Browsers: 2, Middleware: "remember", Providers: []string{"goog"},
		RecoverLogin: true, EmailAuth: emailAuth, Err500: err500, LockAfter: 3, ModuleList: true, OneTimeTOTP: true, Refusal: 1,
		Accounts: []harness.AccountSpec{
			{PID: "plain@x.io", Password: "Passw0rd!A", OTPs: 2, Secondary: []string{"second@alt.io"}},
			{PID: "totp@x.io", Password: "Passw0rd!B", TOTP: true, Recovery: 2},
			{PID: "sms@x.io", Password: "Passw0rd!C", Phone: "+15550002", Recovery: 2},
			{PID: "unconf@x.io", Password: "Passw0rd!D", Unconfirmed: true, OTPs: 1},
			{PID: "sms2@x.io", Password: "Passw0rd!A", Phone: "+15550009", Recovery: 1},
		}}
}

func c18Scenarios() []c18Scenario {
	login0 := Op{K: "login", A: 0, Src: "pw", SA: 0}
	login1 := Op{K: "login", A: 1, Src: "pw", SA: 1}
	login2 := Op{K: "login", A: 2, Src: "pw", SA: 2}
	full1 := []Op{login1, {K: "totpvalidate", A: 1, Src: "totp", SA: 1}}
	full2 := []Op{login2, {K: "smsvalidate", A: 2, Src: "smssess"}}
	ev := func(kind int, a int) []Op {
		return []Op{{K: "evstart", N: kind}, {K: "evend", A: a, N: kind, Src: "evtok", SA: a}}
	}
	cat := func(parts ...[]Op) []Op {
		var out []Op
		for _, p := range parts {
			out = append(out, p...)
		}
		return out
	}
	return []c18Scenario{
		{Name: "login-ok", Target: login0},
		{Name: "login-rm", Target: Op{K: "login", A: 0, Src: "pw", SA: 0, F: true}},
		{Name: "login-wrong", Target: Op{K: "login", A: 0, Src: "lit", S: "wrong-Pass1!"}},
		{Name: "login-unknown", Target: Op{K: "login", A: -1, Src: "lit", S: "wrong-Pass1!"}},
		{Name: "login-unconfirmed", Target: Op{K: "login", A: 3, Src: "pw", SA: 3}},
		{Name: "login-totp-account", Target: login1},
		{Name: "login-sms-account", Target: login2},
		{Name: "login-get", Target: Op{K: "get", S: "/login"}},
		{Name: "otplogin-ok", Target: Op{K: "otplogin", A: 0, Src: "otp", SA: 0}, After: []Op{{K: "newsess"}, {K: "otplogin", A: 0, Src: "otp", SA: 0}}},
		{Name: "otplogin-unconfirmed", Target: Op{K: "otplogin", A: 3, Src: "otp", SA: 3}},
		{Name: "otplogin-2fa-account", Setup: []Op{login1, {K: "totpvalidate", A: 1, Src: "totp", SA: 1}, {K: "otpadd"}, {K: "logout"}}, Target: Op{K: "otplogin", A: 1, Src: "otp", SA: 1}},
		{Name: "otplogin-wrong", Target: Op{K: "otplogin", A: 0, Src: "lit", S: "0000-0000"}},
		{Name: "otpadd", Setup: []Op{login0}, Target: Op{K: "otpadd"}, After: []Op{{K: "newsess"}, {K: "otplogin", A: 0, Src: "otp", SA: 0}}},
		{Name: "otpclear", Setup: []Op{login0}, Target: Op{K: "otpclear"}},
		{Name: "register-new", Target: Op{K: "register", A: -1, N: 0, Src: "lit", S: "Passw0rd!N"}, After: []Op{{K: "login", A: 5, Src: "pw", SA: 5}}},
		{Name: "register-duplicate", Target: Op{K: "register", A: 0, Src: "lit", S: "Passw0rd!N"}},
		{Name: "confirm-valid", Setup: []Op{{K: "reconfirm", A: 3}}, Target: Op{K: "confirm", A: 3, Src: "cnftok", SA: 3}, After: []Op{{K: "confirm", A: 3, Src: "cnftok", SA: 3}, {K: "login", A: 3, Src: "pw", SA: 3}}},
		{Name: "confirm-invalid", Setup: []Op{{K: "reconfirm", A: 3}}, Target: Op{K: "confirm", A: 3, Src: "cnftok", SA: 3, Mut: "flip", MA: 300}},
		{Name: "recover-start-known", Target: Op{K: "recstart", A: 0}, After: []Op{{K: "recend", A: 0, Src: "rectok", SA: 0, S: "Passw0rd!R"}}},
		{Name: "recover-start-unknown", Target: Op{K: "recstart", A: -1}},
		// the same with the library's default mail goroutines: only sending may move out of the request, saving may not
		{Name: "recover-start-known-mailgo", MailGo: true, Target: Op{K: "recstart", A: 0}, After: []Op{{K: "recend", A: 0, Src: "rectok", SA: 0, S: "Passw0rd!R"}}},
		{Name: "register-new-mailgo", MailGo: true, Target: Op{K: "register", A: -1, N: 0, Src: "lit", S: "Passw0rd!N"}, After: []Op{{K: "login", A: 5, Src: "pw", SA: 5}}},
		{Name: "email-verify-start-mailgo", MailGo: true, Setup: []Op{login0}, Target: Op{K: "evstart", N: 0}},
		{Name: "recover-end-valid", Setup: []Op{{K: "recstart", A: 0}}, Target: Op{K: "recend", A: 0, Src: "rectok", SA: 0, S: "Passw0rd!R"},
			After: []Op{{K: "newsess"}, {K: "recend", A: 0, Src: "rectok", SA: 0, S: "Passw0rd!S"}, {K: "login", A: 0, Src: "pwold", SA: 0}}},
		{Name: "recover-end-remembered", Setup: []Op{{K: "login", B: 1, A: 0, Src: "pw", SA: 0, F: true}, {K: "recstart", A: 0}}, Target: Op{K: "recend", A: 0, Src: "rectok", SA: 0, S: "Passw0rd!R"},
			After: []Op{{K: "newsess", B: 1}, {K: "visit", B: 1, S: "/p/none"}}},
		{Name: "recover-end-locked", Setup: []Op{{K: "lock", A: 0}, {K: "recstart", A: 0}}, Target: Op{K: "recend", A: 0, Src: "rectok", SA: 0, S: "Passw0rd!R"},
			After: []Op{{K: "newsess"}, {K: "login", A: 0, Src: "pw", SA: 0}}},
		{Name: "recover-end-2fa-account", Setup: []Op{{K: "recstart", A: 1}}, Target: Op{K: "recend", A: 1, Src: "rectok", SA: 1, S: "Passw0rd!R"}},
		{Name: "recover-end-invalid", Setup: []Op{{K: "recstart", A: 0}}, Target: Op{K: "recend", A: 0, Src: "rectok", SA: 0, Mut: "flip", MA: 300, S: "Passw0rd!R"}},
		{Name: "update-password-api", Setup: []Op{{K: "login", B: 1, A: 0, Src: "pw", SA: 0, F: true}}, Target: Op{K: "updpw", A: 0, S: "Passw0rd!U"},
			After: []Op{{K: "newsess", B: 1}, {K: "visit", B: 1, S: "/p/none"}, {K: "login", A: 0, Src: "pw", SA: 0}}},
		{Name: "logout", Setup: []Op{login0}, Target: Op{K: "logout"}},
		{Name: "remember-reauth", Setup: []Op{{K: "login", A: 0, Src: "pw", SA: 0, F: true}, {K: "newsess"}}, Target: Op{K: "visit", S: "/p/none"},
			After: []Op{{K: "setcookie", B: 1, Src: "cookie", SA: 0, SN: 1}, {K: "visit", B: 1, S: "/p/none"}}},
		{Name: "remember-reauth-full-route", Setup: []Op{{K: "login", A: 0, Src: "pw", SA: 0, F: true}, {K: "newsess"}}, Target: Op{K: "visit", S: "/p/full"}},
		{Name: "remember-reauth-regen", Setup: []Op{{K: "login", A: 0, Src: "pw", SA: 0, F: true}, {K: "newsess"}}, Target: Op{K: "regen"}},
		{Name: "protected-visit", Setup: []Op{login0}, Target: Op{K: "visit", S: "/p/full"}},
		{Name: "lock-middleware", Setup: []Op{login0}, Target: Op{K: "visit", S: "/p/lock"}},
		{Name: "confirm-middleware", Setup: []Op{login0}, Target: Op{K: "visit", S: "/p/confirm"}},
		{Name: "oauth2-start", Target: Op{K: "o2start", N: 0, F: true, S2: "/back/here"}},
		{Name: "oauth2-callback-new", Setup: []Op{{K: "o2start", N: 0, F: true}}, Target: Op{K: "o2cb", N: 0, Src: "state", SA: 0, S: "code-u1"}, After: []Op{{K: "o2cb", B: 1, N: 0, Src: "stateold", SA: 0, S: "code-u1"}}},
		{Name: "oauth2-callback-existing", Setup: []Op{{K: "o2start", N: 0}, {K: "o2cb", N: 0, Src: "state", SA: 0, S: "code-u1"}, {K: "newsess"}, {K: "o2start", N: 0}}, Target: Op{K: "o2cb", N: 0, Src: "state", SA: 0, S: "code-u1"}},
		{Name: "totp-validate-code", Setup: []Op{login1}, Target: Op{K: "totpvalidate", A: 1, Src: "totp", SA: 1}},
		{Name: "totp-validate-recovery", Setup: []Op{login1}, Target: Op{K: "totpvalidate", A: 1, Src: "rec", SA: 1, F: true},
			After: []Op{{K: "newsess"}, login1, {K: "totpvalidate", A: 1, Src: "rec", SA: 1, F: true}}},
		{Name: "totp-validate-code-min-onetime", Min: true, OneTime: true, Setup: []Op{login1}, Target: Op{K: "totpvalidate", A: 1, Src: "totp", SA: 1},
			After: []Op{{K: "newsess"}, login1, {K: "totpvalidate", A: 1, Src: "totp", SA: 1}}},
		{Name: "totp-validate-recovery-min", Min: true, Setup: []Op{login1}, Target: Op{K: "totpvalidate", A: 1, Src: "rec", SA: 1, F: true},
			After: []Op{{K: "newsess"}, login1, {K: "totpvalidate", A: 1, Src: "rec", SA: 1, F: true}}},
		{Name: "sms-validate-recovery-min", Min: true, Setup: []Op{login2}, Target: Op{K: "smsvalidate", A: 2, Src: "rec", SA: 2, F: true},
			After: []Op{{K: "newsess"}, {K: "advance", N: 12}, login2, {K: "smsvalidate", A: 2, Src: "rec", SA: 2, F: true}}},
		{Name: "otplogin-ok-min", Min: true, Target: Op{K: "otplogin", A: 0, Src: "otp", SA: 0}, After: []Op{{K: "newsess"}, {K: "otplogin", A: 0, Src: "otp", SA: 0}}},
		{Name: "recover-end-valid-min", Min: true, Setup: []Op{{K: "recstart", A: 0}}, Target: Op{K: "recend", A: 0, Src: "rectok", SA: 0, S: "Passw0rd!R"},
			After: []Op{{K: "newsess"}, {K: "recend", A: 0, Src: "rectok", SA: 0, S: "Passw0rd!S"}}},
		{Name: "totp-validate-wrong", Setup: []Op{login1}, Target: Op{K: "totpvalidate", A: 1, Src: "rand6"}},
		{Name: "sms-validate-code", Setup: []Op{login2}, Target: Op{K: "smsvalidate", A: 2, Src: "smssess"}},
		{Name: "sms-validate-recovery", Setup: []Op{login2}, Target: Op{K: "smsvalidate", A: 2, Src: "rec", SA: 2, F: true},
			After: []Op{{K: "newsess"}, {K: "advance", N: 12}, login2, {K: "smsvalidate", A: 2, Src: "rec", SA: 2, F: true}}},
		// an abandoned SMS step of another account left its code in the session; the next account's code request fails
		{Name: "sms-login-over-abandoned-step", Setup: []Op{{K: "login", A: 4, Src: "pw", SA: 4}, {K: "advance", N: 12}}, Target: login2,
			After: []Op{{K: "smsvalidate", A: 2, Src: "sms", SA: 4}, {K: "smsvalidate", A: 2, Src: "smssess"}}},
		{Name: "sms-resend", Setup: []Op{login2, {K: "advance", N: 12}}, Target: Op{K: "smsresend", S: "validate"}},
		{Name: "email-verify-start", Setup: []Op{login0}, Target: Op{K: "evstart", N: 0}},
		{Name: "email-verify-end", Setup: []Op{login0, {K: "evstart", N: 0}}, Target: Op{K: "evend", A: 0, N: 0, Src: "evtok", SA: 0}},
		{Name: "totp-setup", Setup: cat([]Op{login0}, ev(0, 0)), Target: Op{K: "totpsetup"}},
		{Name: "totp-confirm", Setup: cat([]Op{login0}, ev(0, 0), []Op{{K: "totpsetup"}}), Target: Op{K: "totpconfirm", A: 0, Src: "totpsess"}},
		{Name: "totp-remove", Setup: full1, Target: Op{K: "totpremove", A: 1, Src: "rec", SA: 1, F: true}},
		{Name: "sms-setup", Setup: cat([]Op{login0}, ev(1, 0)), Target: Op{K: "smssetup", S: "+15550009"}},
		{Name: "sms-confirm", Setup: cat([]Op{login0}, ev(1, 0), []Op{{K: "smssetup", S: "+15550009"}}), Target: Op{K: "smsconfirm", A: 0, Src: "smssess"}},
		{Name: "sms-remove", Setup: full2, Target: Op{K: "smsremove", A: 2, Src: "rec", SA: 2, F: true}},
		{Name: "regen-codes", Setup: full1, Target: Op{K: "regen"}},
		{Name: "totp-qr", Setup: cat([]Op{login0}, ev(0, 0), []Op{{K: "totpsetup"}}), Target: Op{K: "get", S: "/2fa/totp/qr"}},
		{Name: "recover-end-get", Target: Op{K: "get", S: "/recover/end", S2: "token=abc"}},
	}
}

var c18Kinds = []string{"generic", "notfound", "found"}

type c18Run struct {
	Scenario string `json:"scenario"`
	At       int    `json:"fault_at"`
	Kind     string `json:"fault_kind"`
	Err500   bool   `json:"err500"`
	Call     string `json:"call,omitempty"`
	Min      bool   `json:"min,omitempty"`
}

func c18Build(sc c18Scenario, run c18Run) Case {
	ops := append([]Op{}, sc.Setup...)
	t := sc.Target
	t.FA, t.FK = run.At, run.Kind
	ops = append(ops, t)
	ops = append(ops, sc.After...)
	cfg := c18Cfg(run.Err500, true)
	cfg.MailGo = sc.MailGo
	if sc.Min {
		cfg.Modules = []string{"auth", "otp", "logout", "recover"}
		cfg.Setups = []string{"totp", "sms", "recovery"}
		cfg.Middleware, cfg.OneTimeTOTP, cfg.Providers, cfg.ModuleList = "", sc.OneTime, nil, false
		for i := range cfg.Accounts {
			cfg.Accounts[i].Unconfirmed = false
		}
	}
	return Case{Cfg: cfg, Ops: ops}
}

func TestC18Enumerate(t *testing.T) {
	s := st("C18")
	s.Exhaustive = true
	scs := c18Scenarios()
	runs, fired := 0, 0
	shard, shards := envInt("VERIF_SHARD", 0), envInt("VERIF_SHARDS", 1)
	for si, sc := range scs {
		if si%shards != shard%shards {
			continue
		}
		for _, err500 := range []bool{false, true} {
			// fault-free run: discover the backend calls of the target request
			base := c18Build(sc, c18Run{Err500: err500})
			m, err := newMachine(base, &monC18{})
			if err != nil {
				t.Fatalf("scenario %s: %v", sc.Name, err)
			}
			var calls []string
			for i, op := range base.Ops {
				v := m.Exec(i, op)
				if i == len(sc.Setup) {
					if m.NSkip > 0 {
						t.Fatalf("scenario %s: an op was skipped (setup broken)", sc.Name)
					}
				}
				if v != nil {
					if handle(t, v, "c18", map[string]interface{}{"run": c18Run{Scenario: sc.Name, Err500: err500}, "case": base}) {
						break
					}
				}
				if i == len(sc.Setup) {
					calls = lastCalls(m)
				}
			}
			m.W.Close()
			st("C18").add("scenario-runs", 1)
			for k := 1; k <= len(calls); k++ {
				for _, kind := range c18Kinds {
					if kind == "found" && calls[k-1] != "Create" {
						continue
					}
					if kind == "notfound" && !strings.HasPrefix(calls[k-1], "Load") && calls[k-1] != "Save" && calls[k-1] != "UseRememberToken" {
						continue
					}
					run := c18Run{Scenario: sc.Name, At: k, Kind: kind, Err500: err500, Call: calls[k-1], Min: sc.Min}
					c := c18Build(sc, run)
					mm, v, err := runCase(c, &monC18{})
					if err != nil {
						t.Fatalf("scenario %s: %v", sc.Name, err)
					}
					runs++
					if mm.Flags["fault-fired:"+calls[k-1]] {
						fired++
					}
					nt := k >= 2
					s.record(nt, fnv64(sc.Name, fmt.Sprint(k), kind, fmt.Sprint(err500)), []string{"scenario:" + sc.Name, "call:" + calls[k-1], "kind:" + kind}, func() interface{} { return run })
					handle(t, v, "c18", map[string]interface{}{"run": run, "case": c})
				}
			}
		}
	}
	s.Extra["scenarios"] = len(scs)
	s.Extra["faulted_runs"] = runs
	s.Extra["faults_fired"] = fired
	if os.Getenv("VERIF_TRACE") != "" {
		t.Logf("scenarios=%d faulted runs=%d fired=%d", len(scs), runs, fired)
	}
}

// OnHang: a request that never returns is the worst "error outcome". After a
// backend failure in an earlier request it means the failure left something
// (a lock, a slot) behind that later requests wait for.
func (c *monC18) OnHang(m *Machine, s *Step) *Violation {
	return violation("C18", "request-never-answered:"+s.Op.K, "%s request did not return within %v (backend call failed in this request: %q); earlier failed requests may have left a lock held", s.Op.K, harness.HangAfter, s.Resp.Fired)
}

func lastCalls(m *Machine) []string { return append([]string(nil), m.lastCalls...) }

// ---- random histories with random fault placement -----------------------------------------------

var profC18 = profile{
	arbVariants: true,
	must:        []string{"auth"}, may: []string{"confirm", "lock", "logout", "oauth2", "otp", "recover", "register", "remember"},
	setups: []string{"totp", "sms", "recovery", "expire"}, kinds: append(append([]wk{}, worldKinds...), wk{"snip:rec2fa", 4}, wk{"snip:mangle", 2}, wk{"snip:reclocked", 4}), minOps: 14, maxOps: 34,
	accts: [2]int{2, 3}, browsers: [2]int{1, 2}, middlewares: []string{"", "remember", "remember", "expire"},
	tweak: func(t *rapid.T, c *harness.Config) {
		c.LockAfter = rapid.IntRange(3, 6).Draw(t, "lockafter18")
		c.MailGo = chance(t, "mailgo18", 30)
	},
	jsonMangle: 4,
	badQuery:   4, badQueryForm: true,
}

func TestC18(t *testing.T) {
	s := st("C18")
	s.Rule = "fault enumeration: ~47 scripted scenarios covering every route and middleware x EVERY backend call the target request makes (index discovered by a fault-free run: storage methods, hasher, renderer, SMS sender) x error kinds (generic; not-found / found where the method can return them) x both error handlers, each followed by monotonicity probes; " +
		"plus random all-flow histories with a backend fault injected into ~30% of the requests; oracle: no panic, no success report without the saved change, no session from a one-time credential whose consumption was not saved, nothing accepted twice; non-trivial = fault at call index >= 2; distinct by (scenario, call index, kind, handler) resp. abstract trace"
	p := profC18
	rapid.Check(t, func(rt *rapid.T) {
		c := genCase(rt, p)
		for i := range c.Ops {
			if chance(rt, "fault", 30) {
				c.Ops[i].FA = rapid.IntRange(1, 7).Draw(rt, "faultat")
				c.Ops[i].FK = pick(rt, "faultkind", "generic", "generic", "notfound", "found")
			}
		}
		m, v, err := runCase(c, &monC18{})
		if err != nil {
			rt.Fatalf("world construction failed: %v", err)
		}
		var classes []string
		for f := range m.Flags {
			classes = append(classes, f)
		}
		s.add("steps", m.NStep)
		s.record(m.Flags["fault-at-call>=2"], m.Trace.h, classes, func() interface{} { return c })
		handle(rt, v, "world:C18", c)
	})
}

func init() {
	replayers["world:C18"] = worldReplayer(func() Monitor { return &monC18{} })
	replayers["c18"] = func(raw json.RawMessage) (*Violation, error) {
		var d struct {
			Case Case `json:"case"`
		}
		if err := json.Unmarshal(raw, &d); err != nil {
			return nil, err
		}
		_, v, err := runCase(d.Case, &monC18{})
		return v, err
	}
}

var _ = authboss.SessionKey
