package props

import (
	"encoding/json"
	"fmt"
	"strings"
	"testing"

	"pgregory.net/rapid"

	"verif/harness"
)

// ---- C20, sequential half: a client's faulted requests change nothing for another client
//
// TestC20 overlaps healthy requests. Here client A's requests come first, some
// of them with one backend call failed, then client B (other account, other
// browser) runs its script without faults. B must observe exactly what it
// observes when it runs alone - in particular it must get answers at all: a
// lock or a pooled buffer left behind by A's failed request shows up here.

type c20fCase struct {
	Cfg     harness.Config      `json:"cfg"`
	ScriptA []string            `json:"script_a"`
	ScriptB []string            `json:"script_b"`
	Faults  []harness.FaultPlan `json:"faults"` // A's i-th request gets Faults[i % len]
}

func c20fSide(c c20fCase, withA bool) ([]string, bool, bool, error) {
	w, err := harness.NewWorld(c.Cfg)
	if err != nil {
		return nil, false, false, err
	}
	defer w.Close()
	cs := c20Clients(w, 2)
	fired := false
	if withA {
		a := cs[0]
		n := 0
		a.fault = func() harness.FaultPlan {
			if len(c.Faults) == 0 {
				return harness.FaultPlan{}
			}
			p := c.Faults[n%len(c.Faults)]
			n++
			return p
		}
		a.run(c.ScriptA)
		fired = a.fired
		if a.dead {
			// A itself never got an answer: B cannot be served by this instance either
			return append([]string{"client A hung"}, a.out...), true, fired, nil
		}
	}
	b := cs[1]
	b.run(c.ScriptB)
	return b.out, b.dead, fired, nil
}

func c20fRun(c c20fCase) (*Violation, bool) {
	with, hung, fired, err := c20fSide(c, true)
	if err != nil {
		st("C20").add("inconclusive", 1)
		return nil, false
	}
	if hung {
		return violation("C20", "no-answer-after-faulted-request", "after client A's requests (some with a failed backend call) a request did not return within %v; transcript so far: %s", harness.HangAfter, strings.Join(with[max(0, len(with)-3):], " | ")), fired
	}
	alone, _, _, err := c20fSide(c, false)
	if err != nil {
		st("C20").add("inconclusive", 1)
		return nil, fired
	}
	for j := 0; j < len(with) || j < len(alone); j++ {
		var x, y string
		if j < len(with) {
			x = with[j]
		}
		if j < len(alone) {
			y = alone[j]
		}
		if x != y {
			step := strings.SplitN(y+":", ":", 2)[0]
			if dot := strings.IndexByte(step, '.'); dot >= 0 {
				step = step[dot+1:]
			}
			return violation("C20", "cross-talk-after-fault:"+step, "client B (script %v) after client A's faulted requests observed\n   after A: %s\n   alone:   %s", c.ScriptB, x, y), fired
		}
	}
	return nil, fired
}

func c20fGen(t *rapid.T) c20fCase {
	var c c20fCase
	c.Cfg = harness.Config{Seed: rapid.Uint64Range(1, 1<<32).Draw(t, "seed"), Modules: []string{"auth", "confirm", "lock", "logout", "otp", "recover", "register", "remember", "oauth2"}, Providers: []string{"goog"}, ProviderParams: true,
		Setups: []string{"expire", "totp", "sms", "recovery"}, Mount: pick(t, "mount", "/auth", ""), JSON: chance(t, "json", 50), Browsers: 2, Middleware: "remember",
		LockAfter: 4, LockWindowS: 300, LockDurS: 600, RecoverLogin: chance(t, "reclogin", 50), MailGo: chance(t, "mailgo", 40),
		Mailer: pick(t, "mailer", "", "", "log", "smtp"), ShippedLog: chance(t, "shippedlog", 70), ModuleList: chance(t, "modlist", 50), Err500: chance(t, "err500", 50), Refusal: 1}
	for i := 0; i < 2; i++ {
		c.Cfg.Accounts = append(c.Cfg.Accounts, harness.AccountSpec{PID: fmt.Sprintf("acct%d@x.io", i), Password: goodPWs[i%4], OTPs: 2})
	}
	for i := 0; i < 2; i++ {
		c.Cfg.Accounts = append(c.Cfg.Accounts, harness.AccountSpec{PID: fmt.Sprintf("bounce%d@refuse.x.io", i), Password: goodPWs[i%4]})
	}
	for i := 0; i < 2; i++ {
		c.Cfg.Accounts = append(c.Cfg.Accounts, harness.AccountSpec{PID: fmt.Sprintf("sms%d@x.io", i), Password: goodPWs[i%4], Phone: fmt.Sprintf("+1555010%d", i), Recovery: 1})
	}
	for i := 0; i < 2; i++ {
		c.Cfg.Accounts = append(c.Cfg.Accounts, harness.AccountSpec{PID: fmt.Sprintf("totp%d@x.io", i), Password: goodPWs[i%4], TOTP: true, Recovery: 1})
	}
	c.Cfg.OneTimeTOTP = chance(t, "onetimetotp", 60)
	steps := func(label string) []string {
		n := rapid.IntRange(2, 5).Draw(t, label)
		var sc []string
		for j := 0; j < n; j++ {
			sc = append(sc, pick(t, "step", c20Steps...))
		}
		return sc
	}
	c.ScriptA, c.ScriptB = steps("na"), steps("nb")
	nf := rapid.IntRange(1, 4).Draw(t, "nfaults")
	for i := 0; i < nf; i++ {
		if chance(t, "nofault", 35) {
			c.Faults = append(c.Faults, harness.FaultPlan{})
		} else {
			c.Faults = append(c.Faults, harness.FaultPlan{At: pick(t, "faultat", 1, 1, 2, 2, 3, 3, 4, 5, 6), Kind: pick(t, "faultkind", "generic", "generic", "notfound")})
		}
	}
	return c
}

func TestC20Faults(t *testing.T) {
	s := st("C20")
	s.Rule = "sequential half: client A's script with one backend call failed in most of its requests, then client B (other account and browser) without faults on the same instance; " +
		"oracle: B's transcript equals B's transcript on a fresh instance, and every request returns (watchdog); non-trivial = a fault fired in A's part; distinct by (scripts, fault plan, mailer, flags)"
	rapid.Check(t, func(rt *rapid.T) {
		c := c20fGen(rt)
		v, fired := c20fRun(c)
		classes := []string{"faults-then-other-client", "mailer:" + c.Cfg.Mailer}
		s.record(fired, fnv64(fmt.Sprint(c.ScriptA, c.ScriptB, c.Faults), c.Cfg.Mailer, fmt.Sprint(c.Cfg.MailGo, c.Cfg.JSON, c.Cfg.Err500)), classes, func() interface{} { return c })
		handle(rt, v, "c20f", c)
	})
}

func init() {
	replayers["c20f"] = func(raw json.RawMessage) (*Violation, error) {
		var c c20fCase
		if err := json.Unmarshal(raw, &c); err != nil {
			return nil, err
		}
		v, _ := c20fRun(c)
		return v, nil
	}
}
