package props

import (
	"encoding/base64"
	"encoding/json"
	"fmt"
	"strings"
	"testing"
	"time"

	"github.com/volatiletech/authboss/v3"
	"pgregory.net/rapid"

	"verif/harness"
)

// ---- C01: a logged-in session is only ever issued against a valid credential of that user

var pendingKeys = map[string]string{"totp": "totp_pending", "sms": "sms_pending"}

// credTruth answers, from the pre-request store and what the harness knows,
// whether the request proved a currently valid credential of user u.
// It returns (valid, inconclusive).
func credTruth(m *Machine, s *Step, u string) (bool, bool) {
	op := s.Op
	pre, has := s.Pre.Users[u]
	b := op.B % len(m.W.Jars)
	switch op.K {
	case "login":
		return has && s.Pid == u && bcryptOK(pre.Password, s.Secret), false
	case "otplogin":
		return has && s.Pid == u && otpInList(pre.OTPs, s.Secret), false
	case "recend":
		if !has || !m.C.Cfg.RecoverLogin || !tokenMatches(s.Secret, pre.RecoverSelector, pre.RecoverVerifier) {
			return false, false
		}
		a := !s.Resp.T0.UTC().After(pre.RecoverExpiry)
		z := !s.Resp.T1.UTC().After(pre.RecoverExpiry)
		if a != z {
			return false, true
		}
		return a, false
	case "o2cb":
		id, ok := m.W.OAuthCodes[op.S]
		if !ok || id.Fail != "" || op.F {
			return false, false
		}
		st := s.SessPre[b][authboss.SessionOAuth2State]
		return st != "" && st == s.Secret && u == authboss.MakeOAuth2PID(m.provider(op.N), id.UID), false
	case "register":
		return !has && s.Pid == u && !m.C.Cfg.Has("confirm"), false
	}
	return false, false
}

// rememberTruth: does browser b hold a remember cookie that was issued to u and is live in storage?
func rememberTruth(m *Machine, s *Step, b int, u string) bool {
	return u != "" && m.rotationOwner(s) == u
}

type monC01 struct {
	// pending[b][kind] = user whose credentialed first step parked the login there
	pending []map[string]string
	// spent: one-time credentials the monitor has seen accepted once (storage is not trusted to have consumed them)
	spent                  map[string]bool
	accepted, rejectedNear int
	// the second-factor step must itself prove U's factor: judged by the same oracle as C02
	second monC02
}

// oneTimeKey names the one-time credential a request presents ("" if none).
func oneTimeKey(m *Machine, s *Step) string {
	switch s.Op.K {
	case "otplogin":
		return "otp|" + s.Pid + "|" + s.Secret
	case "recend":
		if raw, err := base64.URLEncoding.DecodeString(s.Secret); err == nil {
			return "rectok|" + string(raw)
		}
	}
	return ""
}

func cookieSpentKey(s *Step) string {
	if s.Resp == nil {
		return ""
	}
	if raw, err := base64.URLEncoding.DecodeString(s.Resp.CookBefore["rm"]); err == nil && len(raw) > 0 {
		return "rm|" + string(raw)
	}
	return ""
}

func (c *monC01) Init(m *Machine) {
	c.second.Init(m)
	c.spent = map[string]bool{}
	c.pending = make([]map[string]string, len(m.W.Jars))
	for i := range c.pending {
		c.pending[i] = map[string]string{}
	}
}

func (c *monC01) After(m *Machine, s *Step) *Violation {
	op := s.Op
	b := op.B % len(m.W.Jars)
	if v := c.second.After(m, s); v != nil && strings.Contains(v.Sig, "completed-with-foreign-code") {
		return violation("C01", "second-factor-step-without-own-factor:"+op.K, "the second-factor step issued a session without a code of that user's own factor: %s", v.Detail)
	}
	// other browsers' sessions and cookies never change
	for j, jar := range m.W.Jars {
		if j == b && s.Resp != nil {
			continue
		}
		if op.K == "newsess" || op.K == "steal" || op.K == "setcookie" || op.K == "dropcookie" || op.K == "advance" {
			continue
		}
		if fmt.Sprint(jar.SessionCopy()) != fmt.Sprint(s.SessPre[j]) {
			return violation("C01", "cross-browser-session-change:"+op.K, "op %s by browser %d changed browser %d's session: %v -> %v", op.K, b, j, s.SessPre[j], jar.SessionCopy())
		}
	}
	if s.Resp == nil {
		return nil
	}
	r := s.Resp
	before, after := r.UIDBefore(), r.UID()

	pendBefore := map[string]string{}
	for k, v := range c.pending[b] {
		pendBefore[k] = v
	}
	// every pending-login marker must come from a credentialed first step
	for kind, key := range pendingKeys {
		pb, pa := r.SessBefore[key], r.SessAfter[key]
		if pa != pb && pa != "" {
			ok, inc := c.cred(m, s, pa)
			if inc {
				st("C01").add("inconclusive", 1)
			} else if !ok || (op.K != "login" && op.K != "otplogin" && op.K != "recend") {
				return violation("C01", "pending-without-credential:"+op.K+":"+op.Src, "%s request (pid %q) parked a pending %s login for %q without a valid credential of it", op.K, s.Pid, kind, pa)
			}
			c.pending[b][kind] = pa
		}
		if _, still := r.SessAfter[key]; !still {
			delete(c.pending[b], kind)
		}
	}

	if after == before {
		c.noteReject(m, s)
		return nil
	}
	if after == "" {
		switch {
		case op.K == "logout":
			return nil
		case m.C.Cfg.Middleware == "expire":
			if la, ok := r.SessBefore[authboss.SessionLastAction]; ok {
				if t, err := time.Parse(time.RFC3339, la); err == nil && r.T1.Sub(t) >= time.Duration(m.C.Cfg.ExpireS)*time.Second {
					return nil
				}
			}
		}
		return violation("C01", "identity-dropped:"+op.K, "%s request removed the session user %q without logout or expiry", op.K, before)
	}
	// after is a new non-empty identity: it must be justified
	ck := cookieSpentKey(s)
	remOK := before == "" && rememberTruth(m, s, b, after) && !c.spent[ck]
	// When the remember cookie alone justifies the session and the handler
	// reported an error, the handler's own one-time credential may not have been
	// consumed (a failed Save): it is not booked as spent.
	if ok, inc := c.credMark(m, s, after, !(remOK && r.Rec.HandlerErr != nil)); inc {
		st("C01").add("inconclusive", 1)
		return nil
	} else if ok {
		c.accepted++
		m.flag("accepted:" + op.K)
		if remOK && r.Fired != "UseRememberToken" {
			c.spent[ck] = true // the middleware rotated the cookie on the way in
		}
		return nil
	}
	if remOK {
		c.spent[ck] = true
		c.accepted++
		m.flag("accepted:remember")
		return nil
	}
	if op.K == "totpvalidate" || op.K == "smsvalidate" {
		kind := "totp"
		if op.K == "smsvalidate" {
			kind = "sms"
		}
		if before == "" && r.SessBefore[pendingKeys[kind]] == after && pendBefore[kind] == after {
			c.accepted++
			m.flag("accepted:2fa")
			return nil
		}
	}
	return violation("C01", "session-without-credential:"+op.K+":"+op.Src+":"+op.Mut,
		"%s request (pid %q, secret source %s/%s of acct %d) changed the session user %q -> %q without a valid credential of %q",
		op.K, s.Pid, op.Src, op.Mut, op.SA, before, after, after)
}

// noteReject classifies rejected near-miss attempts for the non-triviality rule.
func (c *monC01) noteReject(m *Machine, s *Step) {
	op := s.Op
	switch op.K {
	case "login", "otplogin", "confirm", "recend", "totpvalidate", "smsvalidate", "o2cb":
	default:
		return
	}
	near := ""
	switch {
	case op.SA != op.A && (op.Src == "pw" || op.Src == "otp" || op.Src == "rec" || op.Src == "rectok" || op.Src == "totp" || op.Src == "sms"):
		near = "other-account-secret"
	case op.Src == "pwold" || op.Src == "stateold" || op.Src == "totpprev" || (op.SN > 0 && (op.Src == "otp" || op.Src == "rectok")):
		near = "stale-secret"
	case op.Src == "pwhash" || op.Src == "otphash" || op.Src == "rechash" || op.Src == "recsel" || op.Src == "recver" || op.Src == "recraw":
		near = "stored-value-as-secret"
	}
	if near != "" {
		c.rejectedNear++
		m.flag("rejected:" + near)
	}
}

// cred is credTruth with single-use bookkeeping: a one-time credential that was
// accepted once is invalid from then on, whatever storage still says.
func (c *monC01) cred(m *Machine, s *Step, u string) (bool, bool) { return c.credMark(m, s, u, true) }

func (c *monC01) credMark(m *Machine, s *Step, u string, mark bool) (bool, bool) {
	ok, inc := credTruth(m, s, u)
	if !ok || inc {
		return ok, inc
	}
	if k := oneTimeKey(m, s); k != "" {
		if c.spent[k] {
			m.flag("spent-credential-presented")
			return false, false
		}
		if mark {
			c.spent[k] = true
		}
	}
	return true, false
}

func (c *monC01) End(m *Machine) *Violation { return nil }

var worldKinds = []wk{
	{"login", 22}, {"otplogin", 8}, {"otpadd", 3}, {"otpclear", 1}, {"register", 5}, {"confirm", 4}, {"reconfirm", 1},
	{"recstart", 5}, {"recend", 7}, {"updpw", 1}, {"logout", 4}, {"newsess", 5}, {"steal", 2}, {"setcookie", 3}, {"visit", 8},
	{"set", 1}, {"o2start", 4}, {"o2cb", 6}, {"totpvalidate", 7}, {"smsvalidate", 7}, {"smsresend", 2}, {"totpsetup", 1},
	{"totpconfirm", 1}, {"smssetup", 1}, {"smsconfirm", 1}, {"totpremove", 1}, {"smsremove", 1}, {"evstart", 1}, {"evend", 2},
	{"lock", 1}, {"unlock", 1}, {"advance", 5}, {"get", 2}, {"raw", 3},
	{"snip:recover", 6}, {"snip:remember", 5}, {"snip:oauth", 3}, {"snip:2fa", 5}, {"snip:rec2fa", 14}, {"snip:otp", 3}, {"snip:register", 2},
}

var profC01 = profile{
	arbVariants: true,
	must:        []string{"auth"}, may: []string{"confirm", "lock", "logout", "oauth2", "otp", "recover", "register", "remember"},
	setups: []string{"totp", "sms", "recovery", "expire"}, kinds: worldKinds, minOps: 14, maxOps: 34,
	accts: [2]int{2, 4}, browsers: [2]int{1, 3}, middlewares: []string{"", "remember", "remember", "expire"},
	tweak:      func(t *rapid.T, c *harness.Config) { c.LockAfter = rapid.IntRange(2, 6).Draw(t, "lockafter2") },
	faultPct:   8, // every C01 rule is a safety rule: it must hold whichever backend call fails
	jsonMangle: 5,
	badQuery:   4, badQueryForm: true,
	acctTweak: func(t *rapid.T, i int, a *harness.AccountSpec, c *harness.Config) {
		if a.Locked && chance(t, "unlockseed", 50) {
			a.Locked = false
		}
		if a.Unconfirmed && chance(t, "confseed", 50) {
			a.Unconfirmed = false
		}
	},
}

func runWorldProp(t *testing.T, prop string, p profile, mk func() Monitor, nontrivial func(m *Machine) bool) {
	s := st(prop)
	rapid.Check(t, func(rt *rapid.T) {
		c := genCase(rt, p)
		m, v, err := runCase(c, mk())
		if err != nil {
			rt.Fatalf("world construction failed: %v (cfg %+v)", err, c.Cfg)
		}
		var classes []string
		for f := range m.Flags {
			classes = append(classes, f)
		}
		s.add("steps", m.NStep)
		s.add("skipped", m.NSkip)
		s.record(nontrivial(m), m.Trace.h, classes, func() interface{} { return c })
		handle(rt, v, "world:"+prop, c)
	})
}

func TestC01(t *testing.T) {
	st("C01").Rule = "world machine: generated module subsets/orders and configurations, 2-4 accounts, 1-3 browsers, 8-40 ops over every flow with secrets from near-miss pools; " +
		"non-trivial = the case contains >=1 justified login and >=1 rejected attempt that presented another account's secret, a stale secret or a stored value as secret; distinct by FNV of the abstract trace (op kind, secret source, mutation, outcome class)"
	runWorldProp(t, "C01", profC01, func() Monitor { return &monC01{} }, func(m *Machine) bool {
		acc, rej := false, false
		for f := range m.Flags {
			if len(f) > 9 && f[:9] == "accepted:" {
				acc = true
			}
			if len(f) > 9 && f[:9] == "rejected:" {
				rej = true
			}
		}
		return acc && rej
	})
}

func worldReplayer(mk func() Monitor) func(raw json.RawMessage) (*Violation, error) {
	return func(raw json.RawMessage) (*Violation, error) {
		var c Case
		if err := json.Unmarshal(raw, &c); err != nil {
			return nil, err
		}
		_, v, err := runCase(c, mk())
		return v, err
	}
}

func init() {
	replayers["world:C01"] = worldReplayer(func() Monitor { return &monC01{} })
}

var _ = harness.AppKeys
