package props

import (
	"fmt"

	"pgregory.net/rapid"

	"verif/harness"
)

// ---- generators: configurations and op histories ------------------------------------------

type wk struct {
	k string
	w int
}

// profile describes what a property's machine generates.
type profile struct {
	arbVariants bool     // also generate applications whose user type / register values lack the optional arbitrary-values interfaces
	must, may   []string // modules always / sometimes loaded
	setups      []string // 2FA/expire setups that may be performed (order generated)
	mustSetups  []string
	kinds       []wk
	minOps      int
	maxOps      int
	accts       [2]int
	browsers    [2]int
	middlewares []string // choices
	tweak       func(t *rapid.T, c *harness.Config)
	acctTweak   func(t *rapid.T, i int, a *harness.AccountSpec, c *harness.Config)
	// faultPct > 0: that share of the requests has one backend call failed
	// (kinds from faultKinds, default generic). Only for monitors whose rules
	// are pure safety rules, or that exempt faulted steps from must-succeed rules.
	faultPct   int
	faultKinds []string
	faultOps   []string // if set, only these op kinds are faulted
	// jsonMangle > 0: in JSON mode that share of the form requests carries a body that does not
	// decode (only for monitors without must-accept rules: the request is then refused)
	jsonMangle int
	// badQuery > 0: that share of the POST requests carries a query string that does not parse.
	// In JSON mode the shipped body reader never looks at it; in form mode it makes the request
	// fail, so form-mode worlds only get it when badQueryForm is set (safety-only monitors).
	badQuery     int
	badQueryForm bool
	// cancelPct > 0: that share of the requests has its context cancelled while it is being served
	// (the client gave up). No backend call fails, so every rule applies unchanged.
	cancelPct int
}

var goodPWs = []string{"Passw0rd!A", "Passw0rd!B", "Passw0rd!C", "Passw0rd!D", "Zq9#mmmmX", "N3w-Secret_pw",
	// passwords that look like something else - a stored hash of the site's own cost or of a higher one, a token: still just passwords
	"$2a$04$N9qo8uLOickgx2ZMRZoMyeIjZAgcfl7p92ldGxad68LJZdL17lhWy", "$2a$12$My.Passphrase.Is.Long.And.Looks.Odd.But.It.Is.Mine.2024"}
var badPolicyPWs = []string{"short1!", "alllowercase1!", "NoDigits!!", "NoSymbol11", "with space1!A", ""}

func pick[T any](t *rapid.T, label string, xs ...T) T { return rapid.SampledFrom(xs).Draw(t, label) }

func chance(t *rapid.T, label string, pct int) bool {
	return rapid.IntRange(0, 99).Draw(t, label) < pct
}

func perm(t *rapid.T, label string, xs []string) []string {
	out := append([]string(nil), xs...)
	return rapid.Permutation(out).Draw(t, label)
}

func subset(t *rapid.T, label string, xs []string, pct int) []string {
	var out []string
	for _, x := range xs {
		if chance(t, label+"-"+x, pct) {
			out = append(out, x)
		}
	}
	return out
}

func genConfig(t *rapid.T, p profile) harness.Config {
	var c harness.Config
	c.Seed = rapid.Uint64Range(1, 1<<40).Draw(t, "seed")
	mods := append([]string(nil), p.must...)
	mods = append(mods, subset(t, "mod", p.may, 55)...)
	c.Modules = perm(t, "modorder", mods)
	sets := append([]string(nil), p.mustSetups...)
	sets = append(sets, subset(t, "setup", p.setups, 60)...)
	c.Setups = perm(t, "setuporder", sets)
	c.SetupsFirst = len(sets) > 0 && chance(t, "setupsfirst", 30)
	c.LegacyRedirect = chance(t, "legacyredirect", 12)
	c.NilEmptyState = chance(t, "nilemptystate", 20)
	c.MiddlewareEarly = chance(t, "middlewareearly", 20)
	if p.arbVariants && contains(mods, "register") {
		c.NoArbitraryUser = chance(t, "noarbuser", 30)
		c.PlainRegValues = chance(t, "plainregvalues", 30)
	}
	if chance(t, "storezone", 25) {
		c.StoreZoneH = pick(t, "zoneh", 5, -5, 13, -11, 1)
	}
	if chance(t, "writerwrap", 30) {
		c.WriterWrap = pick(t, "wrapkind", "underlying", "unwrap", "unwrap", "controller", "controller")
	}
	if chance(t, "localizer", 20) {
		c.Localizer = "untranslated"
	}
	if chance(t, "extrarules", 20) {
		c.ExtraRulePages = subset(t, "rulepages", []string{"login", "recover_start", "recover_end", "register", "confirm"}, 50)
	}
	if chance(t, "upstreamlookup", 20) {
		c.UpstreamLookup = rapid.IntRange(1, 2).Draw(t, "lookupkind")
	}
	c.Mount = pick(t, "mount", "/auth", "/auth", "", "/a/b")
	c.JSON = chance(t, "json", 40)
	c.Username = chance(t, "username", 20)
	c.Refusal = rapid.IntRange(0, 2).Draw(t, "refusal")
	c.LockAfter = rapid.IntRange(1, 4).Draw(t, "lockafter")
	c.LockWindowS = pick(t, "lockwin", 60, 300, 3600)
	c.LockDurS = pick(t, "lockdur", 30, 600, 43200, 43200, 7889400000) // the last: 250 years, "until an admin unlocks"
	c.ExpireS = pick(t, "expire", 30, 3600)
	c.RecoverDurS = pick(t, "recdur", 60, 3600, 86400)
	c.RecoverLogin = chance(t, "reclogin", 50)
	c.EmailAuth = chance(t, "emailauth", 30)
	c.LogoutMethod = pick(t, "logoutmethod", "DELETE", "POST", "GET")
	c.MailMethod = pick(t, "mailmethod", "GET", "GET", "POST")
	c.Whitelist = subset(t, "wl", harness.AppKeys, 40)
	c.MailGo = false
	c.Err500 = chance(t, "err500", 50)
	c.OneTimeTOTP = chance(t, "onetime", 50)
	c.ModuleList = chance(t, "modlist", 30)
	if len(p.middlewares) > 0 {
		c.Middleware = pick(t, "mw", p.middlewares...)
	}
	if c.Middleware == "remember" && !c.Has("remember") {
		c.Modules = append(c.Modules, "remember")
	}
	if !c.Has("remember") && c.Middleware != "remember" && chance(t, "norememberstore", 40) {
		c.NoRememberStore = true // ... and never wrote the remember-token methods of its storer
	}
	if !c.Has("remember") && c.Middleware != "remember" && chance(t, "nocookiestore", 35) {
		c.NoCookieStore = true // an application without remember-me leaves the cookie store out
	}
	if c.Has("oauth2") {
		c.StockDetails = chance(t, "stockdetails", 40)
		c.ProviderParams = chance(t, "providerparams", 40)
		c.NumericIDs = c.StockDetails && chance(t, "numericids", 40)
		c.Providers = []string{"goog", "fb"}[:rapid.IntRange(1, 2).Draw(t, "nprov")]
	}
	c.Browsers = rapid.IntRange(p.browsers[0], p.browsers[1]).Draw(t, "browsers")
	n := rapid.IntRange(p.accts[0], p.accts[1]).Draw(t, "naccts")
	for i := 0; i < n; i++ {
		a := harness.AccountSpec{Password: goodPWs[i%4]}
		short := chance(t, "shortpid", 15)     // one-character names are valid identifiers too
		mixed := chance(t, "mixedcasepid", 15) // identifiers are case-sensitive strings to the library
		switch {
		case c.Username && mixed && !short:
			a.PID = fmt.Sprintf("User%c", 'A'+i)
			a.Email = fmt.Sprintf("user%c@mail.io", 'a'+i)
		case !c.Username && mixed && !short:
			a.PID = fmt.Sprintf("Acct%c@X.io", 'A'+i)
		case c.Username && short:
			a.PID = fmt.Sprintf("%c", 'a'+i)
			a.Email = fmt.Sprintf("%c@mail.io", 'a'+i)
		case c.Username:
			a.PID = fmt.Sprintf("user%c", 'a'+i)
			a.Email = fmt.Sprintf("user%c@mail.io", 'a'+i)
		case short:
			a.PID = fmt.Sprintf("%c@x.io", 'a'+i)
		default:
			a.PID = fmt.Sprintf("acct%c@x.io", 'a'+i)
		}
		if c.Has("otp") {
			a.OTPs = rapid.IntRange(0, 3).Draw(t, "otps")
		}
		if c.HasSetup("totp") && chance(t, "hastotp", 45) {
			a.TOTP = true
		}
		if c.HasSetup("sms") && chance(t, "hassms", 45) {
			a.Phone = fmt.Sprintf("+1555000%d", i)
		}
		if a.TOTP || a.Phone != "" {
			a.Recovery = rapid.IntRange(0, 3).Draw(t, "nrec")
		}
		if c.Has("confirm") && chance(t, "unconf", 20) {
			a.Unconfirmed = true
		}
		if c.Has("lock") && chance(t, "locked", 15) {
			a.Locked = true
		}
		if chance(t, "secondary", 15) {
			a.Secondary = []string{fmt.Sprintf("second%d@alt.io", i)}
		}
		if p.acctTweak != nil {
			p.acctTweak(t, i, &a, &c)
		}
		c.Accounts = append(c.Accounts, a)
	}
	if p.tweak != nil {
		p.tweak(t, &c)
	}
	return c
}

type genEnv struct {
	cfg    harness.Config
	nAcct  int
	nBrows int
}

type sc struct {
	src string
	w   int
	// who: "own" target account, "other" a different one, "any"
	who string
	mut []string
}

func drawSecret(t *rapid.T, op *Op, e genEnv, pool []sc) {
	total := 0
	for _, c := range pool {
		total += c.w
	}
	r := rapid.IntRange(0, total-1).Draw(t, "secpick")
	var ch sc
	for _, c := range pool {
		if r < c.w {
			ch = c
			break
		}
		r -= c.w
	}
	op.Src = ch.src
	switch ch.who {
	case "other":
		if e.nAcct > 1 {
			op.SA = (op.A + 1 + rapid.IntRange(0, e.nAcct-2).Draw(t, "otheracct")) % e.nAcct
			if op.A < 0 {
				op.SA = rapid.IntRange(0, e.nAcct-1).Draw(t, "otheracct2")
			}
		}
	case "any":
		op.SA = rapid.IntRange(0, e.nAcct-1).Draw(t, "anyacct")
	default:
		op.SA = op.A
		if op.SA < 0 {
			op.SA = 0
		}
	}
	op.SN = rapid.IntRange(0, 3).Draw(t, "nth")
	if rapid.IntRange(0, 2).Draw(t, "nth0") > 0 {
		op.SN = 0
	}
	if len(ch.mut) > 0 {
		op.Mut = rapid.SampledFrom(ch.mut).Draw(t, "mut")
		if op.Mut != "" {
			op.MA = rapid.IntRange(0, 511).Draw(t, "mutarg")
		}
	}
	if ch.src == "lit" {
		op.S = pick(t, "lit", "wrong-Pass1!", "x", "000000", "' OR 1=1 --", "null", "true", "Passw0rd!", "0", "7", "42")
	}
	if ch.src == "long" {
		op.MA = pick(t, "longlen", 100, 1000, 70000)
	}
}

var tokenMuts = []string{"", "", "", "", "", "", "", "", "flip", "flip", "truncbytes", "extbytes", "altbits", "crlf", "dot", "std64", "trunc", "double", "space"}
var stringMuts = []string{"", "", "", "", "", "", "", "", "", "", "", "", "", "", "trunc", "ext", "upper", "lower", "space", "lead", "prefix", "nul", "double"}

var (
	poolPassword = []sc{{"pw", 50, "own", stringMuts}, {"pw", 12, "other", nil}, {"pwold", 6, "own", nil}, {"pwhash", 5, "own", nil},
		{"empty", 4, "", nil}, {"lit", 8, "", nil}, {"long", 2, "", nil}, {"otp", 4, "own", nil}, {"rec", 2, "own", nil}}
	poolOTP = []sc{{"otp", 50, "own", stringMuts}, {"otp", 14, "other", nil}, {"otphash", 6, "own", nil}, {"empty", 5, "", nil},
		{"pw", 6, "own", nil}, {"lit", 6, "", nil}, {"long", 1, "", nil}}
	poolCnf = []sc{{"cnftok", 50, "own", tokenMuts}, {"cnftok", 8, "other", tokenMuts}, {"cnfsel", 4, "own", nil}, {"cnfver", 4, "own", nil},
		{"cnfraw", 5, "own", nil}, {"splicecnf", 8, "own", nil}, {"rectok", 5, "own", nil}, {"lit", 3, "", nil}, {"empty", 3, "", nil}}
	poolRec = []sc{{"rectok", 50, "own", tokenMuts}, {"rectok", 8, "other", tokenMuts}, {"recsel", 4, "own", nil}, {"recver", 4, "own", nil},
		{"recraw", 5, "own", nil}, {"splicerec", 8, "own", nil}, {"cnftok", 5, "own", nil}, {"lit", 3, "", nil}, {"empty", 3, "", nil}}
	poolTOTP = []sc{{"totp", 45, "own", totpMuts}, {"totp", 12, "other", nil}, {"totpprev", 5, "own", nil}, {"totp-2", 6, "own", nil}, {"totp+2", 3, "own", nil}, {"totpsess", 6, "", nil},
		{"rand6", 10, "", nil}, {"empty", 5, "", nil}, {"smsany", 5, "", nil}, {"lit", 4, "", nil}, {"rec", 4, "own", nil}}
	poolSMS = []sc{{"sms", 35, "own", totpMuts}, {"sms", 12, "other", nil}, {"smssess", 15, "", totpMuts}, {"smsany", 10, "", nil},
		{"rand6", 10, "", nil}, {"empty", 4, "", nil}, {"totp", 4, "own", nil}, {"lit", 3, "", nil}, {"rec", 5, "own", nil}}
	poolRecovery = []sc{{"rec", 50, "own", stringMuts}, {"rec", 15, "other", nil}, {"rechash", 8, "own", nil}, {"lit", 5, "", nil}, {"otp", 4, "own", nil}}
	poolEv       = []sc{{"evtok", 40, "own", []string{"", "", "flip", "trunc"}}, {"evtok", 10, "other", nil}, {"sesstok", 10, "", nil},
		{"empty", 12, "", nil}, {"absent", 12, "", nil}, {"lit", 6, "", nil}}
	poolState  = []sc{{"state", 50, "own", []string{"", "", "", "flip", "trunc", "ext"}}, {"stateold", 15, "own", nil}, {"empty", 8, "", nil}, {"absent", 8, "", nil}, {"lit", 6, "", nil}}
	poolCookie = []sc{{"cookie", 50, "any", []string{"", "", "", "flip", "truncbytes", "extbytes", "trunc", "altbits", "nonceonly", "sepnonce", "pidonly"}}, {"lit", 10, "", nil}, {"empty", 5, "", nil},
		{"pwhash", 4, "any", nil}}
)

// totpMuts: the code as shown, with blanks around it, cut to its leading or trailing digits, or lengthened
var totpMuts = []string{"", "", "", "", "", "", "trunc", "tail", "tail", "space", "lead", "ext"}

var visitRoutes = []string{"/p/none", "/p/full", "/p/2fa", "/p/full2fa", "/p/lock", "/p/confirm", "/open"}
var redirPool = []string{"", "", "", "/back/here", "/x?y=1"}

func drawTarget(t *rapid.T, e genEnv) int {
	r := rapid.IntRange(0, 99).Draw(t, "target")
	switch {
	case r < 86:
		return rapid.IntRange(0, e.nAcct-1).Draw(t, "acct")
	case r < 93:
		return -1
	case r < 96:
		return -2
	default:
		return -3 - rapid.IntRange(0, e.nAcct-1).Draw(t, "acctcase")
	}
}

// drawOp draws one op of the given kind.
func drawOp(t *rapid.T, kind string, e genEnv) Op {
	op := Op{K: kind}
	op.B = rapid.IntRange(0, e.nBrows-1).Draw(t, "browser")
	switch kind {
	case "login":
		op.A = drawTarget(t, e)
		drawSecret(t, &op, e, poolPassword)
		op.F = chance(t, "rm", 35)
		if !op.F && chance(t, "rmfalse", 25) {
			op.N = rapid.IntRange(1, len(rmRefusals)).Draw(t, "rmspelling")
		}
		op.S2 = pick(t, "redir", redirPool...)
	case "otplogin":
		op.A = drawTarget(t, e)
		drawSecret(t, &op, e, poolOTP)
		op.F = chance(t, "rm", 25)
	case "register":
		if chance(t, "regexisting", 30) {
			op.A = rapid.IntRange(0, e.nAcct-1).Draw(t, "acct")
		} else {
			op.A = -1
		}
		op.N = rapid.IntRange(0, 3).Draw(t, "newpid")
		op.Src = "lit"
		if chance(t, "goodpw", 80) {
			op.S = pick(t, "pw", goodPWs...)
		} else {
			op.S = pick(t, "badpw", badPolicyPWs...)
		}
		if op.A >= 0 && chance(t, "ownpw", 50) {
			// a returning user typing the account's real password into the sign-up form
			op.Src, op.SA, op.S = "pw", op.A, ""
		}
	case "confirm":
		op.A = rapid.IntRange(0, e.nAcct+1).Draw(t, "acct")
		drawSecret(t, &op, e, poolCnf)
	case "reconfirm", "lock", "unlock":
		op.A = rapid.IntRange(0, e.nAcct+1).Draw(t, "acct")
		if kind == "lock" && chance(t, "farban", 30) {
			op.S, op.N = "far", pick(t, "faryear", 0, 200, 1699, 5000)
		}
	case "recstart":
		op.A = drawTarget(t, e)
	case "recget":
		op.A = rapid.IntRange(0, e.nAcct-1).Draw(t, "acct")
		drawSecret(t, &op, e, poolRec)
	case "recend":
		op.A = rapid.IntRange(0, e.nAcct-1).Draw(t, "acct")
		drawSecret(t, &op, e, poolRec)
		if chance(t, "goodpw", 85) {
			op.S = pick(t, "pw", goodPWs...)
		} else {
			op.S = pick(t, "badpw", badPolicyPWs...)
		}
	case "setphone":
		op.A = rapid.IntRange(0, e.nAcct-1).Draw(t, "acct")
		op.S = pick(t, "newphone", "+15557770001", "+15557770002")
	case "updpw":
		op.A = rapid.IntRange(0, e.nAcct-1).Draw(t, "acct")
		op.S = pick(t, "pw", goodPWs...)
	case "logout":
		if chance(t, "othermethod", 25) {
			op.S = pick(t, "method", "GET", "POST", "DELETE", "PUT", "HEAD", "PATCH", "OPTIONS")
			if chance(t, "methodhint", 40) {
				op.S2 = pick(t, "hint", "hdr", "hdr2", "query", "querylower", "form")
			}
		}
	case "visit":
		op.S = pick(t, "route", visitRoutes...)
		if chance(t, "visitmethod", 15) {
			// protected resources are reached with every method a client can send, not only GET
			op.Mut = pick(t, "vmethod", "HEAD", "OPTIONS", "POST", "PUT", "PATCH", "DELETE", "TRACE", "PROPFIND", "OPTIONS")
		}
	case "set":
		op.S = pick(t, "appkey", harness.AppKeys...)
		op.S2 = pick(t, "appval", "dark", "3", "fr")
	case "advance":
		op.N = pick(t, "gap", 1, 3, 8, 12, 20, 45, 90, 400, 4000, 50000, 100000)
	case "steal":
		op.N = rapid.IntRange(0, e.nBrows-1).Draw(t, "from")
	case "setcookie":
		drawSecret(t, &op, e, poolCookie)
	case "o2start":
		op.N = rapid.IntRange(0, 1).Draw(t, "prov")
		op.F = chance(t, "rm", 30)
		op.S2 = pick(t, "redir", redirPool...)
	case "o2cb":
		op.N = rapid.IntRange(0, 1).Draw(t, "prov")
		drawSecret(t, &op, e, poolState)
		if op.Src == "state" || op.Src == "stateold" {
			op.SA = op.B
			if chance(t, "otherbrowser", 25) {
				op.SA = rapid.IntRange(0, e.nBrows-1).Draw(t, "statebrowser")
			}
		}
		op.S = pick(t, "code", "code-u1", "code-u1", "code-u2", "code-weird", "code-bad", "code-nodetails", "code-n1", "code-n2")
		op.F = chance(t, "proverr", 10)
	case "totpvalidate", "totpremove":
		op.A = rapid.IntRange(0, e.nAcct-1).Draw(t, "acct")
		if chance(t, "userec", 25) {
			op.F = true
			drawSecret(t, &op, e, poolRecovery)
			if chance(t, "bothfields", 25) {
				op.X = pick(t, "codefield", "totp", "totp", "junk")
			}
		} else {
			drawSecret(t, &op, e, poolTOTP)
		}
		if kind == "totpvalidate" {
			op.S2 = pick(t, "redir", redirPool...)
		}
	case "totpconfirm":
		op.A = rapid.IntRange(0, e.nAcct-1).Draw(t, "acct")
		if chance(t, "confirmwithrec", 10) {
			op.F = true
			drawSecret(t, &op, e, poolRecovery)
			break
		}
		drawSecret(t, &op, e, []sc{{"totpsess", 50, "", nil}, {"totpsess-2", 8, "", nil}, {"totp", 15, "any", nil}, {"rand6", 15, "", nil}, {"empty", 8, "", nil}, {"lit", 7, "", nil}})
	case "smsvalidate", "smsremove":
		op.A = rapid.IntRange(0, e.nAcct-1).Draw(t, "acct")
		if chance(t, "userec", 25) {
			op.F = true
			drawSecret(t, &op, e, poolRecovery)
			if chance(t, "bothfields", 25) {
				op.X = pick(t, "codefield", "smssess", "smssess", "junk")
			}
		} else {
			drawSecret(t, &op, e, poolSMS)
		}
		if kind == "smsvalidate" {
			op.S2 = pick(t, "redir", redirPool...)
		}
	case "smsconfirm":
		op.A = rapid.IntRange(0, e.nAcct-1).Draw(t, "acct")
		if chance(t, "confirmwithrec", 15) {
			// the confirm page has no use for a recovery code: sending one must not help
			op.F = true
			drawSecret(t, &op, e, poolRecovery)
		} else {
			drawSecret(t, &op, e, poolSMS)
		}
	case "smssetup":
		op.S = pick(t, "number", "+15550001", "+15550009", "+4477000", "")
	case "smsresend":
		op.S = pick(t, "page", "validate", "validate", "confirm", "remove")
	case "evstart":
		op.N = rapid.IntRange(0, 1).Draw(t, "kind")
	case "evend":
		op.N = rapid.IntRange(0, 1).Draw(t, "kind")
		op.A = rapid.IntRange(0, e.nAcct-1).Draw(t, "acct")
		drawSecret(t, &op, e, poolEv)
	case "get":
		op.S = pick(t, "getroute", "/login", "/register", "/recover", "/recover/end", "/otp/login", "/otp/add", "/otp/clear",
			"/2fa/totp/setup", "/2fa/totp/confirm", "/2fa/totp/remove", "/2fa/totp/validate", "/2fa/totp/qr",
			"/2fa/sms/setup", "/2fa/sms/confirm", "/2fa/sms/remove", "/2fa/sms/validate", "/2fa/recovery/regen",
			"/2fa/totp/email/verify", "/2fa/sms/email/verify", "/nonexistent")
	case "raw":
		op.S = pick(t, "rawroute", "/login", "/otp/login", "/register", "/recover", "/recover/end", "/2fa/totp/validate", "/2fa/sms/validate", "/confirm")
		op.S2 = pick(t, "rawbody", "{", "{\"email\":1}", "[]", "null", "email=%zz", "a=1;b=2", "", "{\"email\":\"accta@x.io\",\"password\":null}", "email[]=a&password[]=b")
		op.F = chance(t, "rawget", 20)
	}
	return op
}

// fixRegister turns the drawn register op into concrete pid/password (kept
// out of drawOp so the Op stays small).
func (m *Machine) registerArgs(op Op) (pid, pw string) {
	pw = op.S
	if op.A >= 0 {
		return m.pidOf(op.A), pw
	}
	if m.C.Cfg.Username {
		return fmt.Sprintf("newuser%d", op.N), pw
	}
	return fmt.Sprintf("new%d@x.io", op.N), pw
}

func genOps(t *rapid.T, p profile, e genEnv) []Op {
	var kinds []string
	for _, k := range p.kinds {
		if !kindEnabled(k.k, e.cfg) {
			continue
		}
		for i := 0; i < k.w; i++ {
			kinds = append(kinds, k.k)
		}
	}
	// The list is a rapid slice of "chunks" (one op, or one flow snippet) so the
	// shrinker can delete from the middle; the drawn lower bound keeps typical
	// histories long while still letting a failure shrink to a handful of ops.
	lo := rapid.IntRange(0, p.minOps).Draw(t, "minchunks")
	chunk := rapid.Custom(func(t *rapid.T) []Op {
		k := rapid.SampledFrom(kinds).Draw(t, "kind")
		if len(k) > 5 && k[:5] == "snip:" {
			return drawSnippet(t, k[5:], e)
		}
		return []Op{drawOp(t, k, e)}
	})
	chunks := rapid.SliceOfN(chunk, lo, p.maxOps).Draw(t, "ops")
	var ops []Op
	for _, c := range chunks {
		ops = append(ops, c...)
	}
	if len(ops) > 2*p.maxOps {
		ops = ops[:2*p.maxOps]
	}
	return ops
}

// drawSnippet emits a short correlated sequence (a flow a real user would
// perform), so multi-step states are reached often; every op in it is still
// an ordinary op that shrinking can delete independently.
func drawSnippet(t *rapid.T, name string, e genEnv) []Op {
	b := rapid.IntRange(0, e.nBrows-1).Draw(t, "sbrowser")
	a := rapid.IntRange(0, e.nAcct-1).Draw(t, "sacct")
	c := e.cfg
	var ops []Op
	login := Op{K: "login", B: b, A: a, Src: "pw", SA: a}
	switch name {
	case "recover", "reclocked":
		if !c.Has("recover") {
			return nil
		}
		if name == "reclocked" && c.Has("lock") {
			// the owner of a locked account goes through recovery: the lock is not the recovery's business
			ops = append(ops, Op{K: "lock", B: b, A: a})
		}
		ops = append(ops, Op{K: "recstart", B: b, A: a})
		if chance(t, "gap", 30) {
			// around the link's own lifetime too (a few seconds short of it, just past it, half a minute past it)
			d := c.RecoverDurS
			ops = append(ops, Op{K: "advance", N: pick(t, "sgap", 5, 50, 4000, 100000, max(1, d-3), d+2, d+30, d+90)})
		}
		if chance(t, "nearmiss", 45) {
			nm := Op{K: "recend", B: b, A: a, SA: a, S: pick(t, "pw", goodPWs...)}
			switch pick(t, "nmkind", "flipver", "flipsel", "splice", "raw", "trunc", "other") {
			case "flipver":
				nm.Src, nm.Mut, nm.MA = "rectok", "flip", 256+rapid.IntRange(0, 255).Draw(t, "bit")
			case "flipsel":
				nm.Src, nm.Mut, nm.MA = "rectok", "flip", rapid.IntRange(0, 255).Draw(t, "bit")
			case "splice":
				nm.Src, nm.N = "splicerec", rapid.IntRange(0, e.nAcct-1).Draw(t, "spliceacct")
			case "raw":
				nm.Src = "recraw"
			case "trunc":
				nm.Src, nm.Mut, nm.MA = "rectok", pick(t, "tm", "truncbytes", "extbytes"), rapid.IntRange(0, 63).Draw(t, "n")
			case "other":
				nm.Src, nm.SA = "rectok", (a+1)%e.nAcct
				nm.A = a
			}
			ops = append(ops, nm)
		}
		if chance(t, "openlink", 35) {
			ops = append(ops, Op{K: "recget", B: b, A: a, Src: "rectok", SA: a})
		}
		ops = append(ops, Op{K: "recend", B: b, A: a, Src: "rectok", SA: a, S: pick(t, "pw", goodPWs...)})
		if chance(t, "doublesubmit", 50) {
			// the same form posted again (double click, back button, a copy of the link on another device): from a session
			// without a user, so that a second acceptance shows
			b2 := rapid.IntRange(0, e.nBrows-1).Draw(t, "b2")
			ops = append(ops, Op{K: "newsess", B: b2}, Op{K: "recend", B: b2, A: a, Src: "rectok", SA: a, S: pick(t, "pw2", goodPWs...)})
		}
		if chance(t, "relogin", 50) {
			ops = append(ops, Op{K: "login", B: b, A: a, Src: pick(t, "which", "pw", "pwold"), SA: a})
		}
	case "rotatefault":
		// the request that presents the remember cookie meets a storage failure inside the rotation
		if !c.Has("remember") || !c.Has("auth") || c.Middleware != "remember" {
			return nil
		}
		login.F = true
		ops = append(ops, login, Op{K: "newsess", B: b},
			Op{K: "visit", B: b, S: pick(t, "route", "/p/none", "/p/full", "/p/full", "/open", "/p/2fa"), FN: pick(t, "fn", "AddRememberToken", "AddRememberToken", "UseRememberToken")},
			Op{K: "visit", B: b, S: pick(t, "route2", "/p/none", "/p/full")})
	case "remember":
		if !c.Has("remember") || !c.Has("auth") {
			return nil
		}
		login.F = true
		ops = append(ops, login, Op{K: "newsess", B: b}, Op{K: "visit", B: b, S: pick(t, "route", visitRoutes...)})
		if chance(t, "replay", 40) {
			b2 := rapid.IntRange(0, e.nBrows-1).Draw(t, "b2")
			ops = append(ops, Op{K: "setcookie", B: b2, Src: "cookie", SA: a, SN: rapid.IntRange(0, 2).Draw(t, "oldn")}, Op{K: "newsess", B: b2}, Op{K: "visit", B: b2, S: "/p/none"})
		}
	case "appsignout":
		// the application signs the browser out with the documented helpers - from a live session, or on the very request
		// the remember middleware re-authenticated - and the browser then asks for a protected page
		if !c.Has("auth") {
			return nil
		}
		login.F = c.Has("remember") && chance(t, "rm", 70)
		ops = append(ops, Op{K: "newsess", B: b}, login)
		if login.F && chance(t, "cookieonly", 60) {
			ops = append(ops, Op{K: "newsess", B: b})
		}
		ops = append(ops, Op{K: "visit", B: b, S: "/signout"}, Op{K: "visit", B: b, S: pick(t, "route", "/p/none", "/p/none", "/p/full", "/p/2fa")})
	case "idlelogout":
		// remembered, away for a long time, and the first thing the returning browser does is log out
		if !c.Has("auth") || !c.Has("logout") {
			return nil
		}
		login.F = c.Has("remember")
		ops = append(ops, Op{K: "newsess", B: b}, login)
		if chance(t, "browse", 50) {
			ops = append(ops, Op{K: "visit", B: b, S: pick(t, "route", "/p/none", "/open")}, Op{K: "set", B: b, S: pick(t, "appkey", harness.AppKeys...), S2: "dark"})
		}
		ops = append(ops, Op{K: "advance", N: pick(t, "away", c.ExpireS+5, c.ExpireS+90, 100000)}, Op{K: "logout", B: b})
	case "neighbourpw":
		// somebody types an account's identifier with the password of the account next to it (twins, shared households)
		if !c.Has("auth") || e.nAcct < 2 {
			return nil
		}
		ops = append(ops, Op{K: "newsess", B: b}, Op{K: "login", B: b, A: a, Src: "pw", SA: (a + e.nAcct - 1) % e.nAcct})
		if chance(t, "probe", 50) {
			ops = append(ops, Op{K: "visit", B: b, S: pick(t, "route", "/p/none", "/p/lock", "/p/confirm")})
		}
	case "rmrevoke":
		// remembered on one or two browsers, perhaps re-authenticated by cookie (the cookie rotates), then the password
		// changes (API or recovery), then copies of the cookies from before - spent ones included - come back
		if !c.Has("remember") || !c.Has("auth") {
			return nil
		}
		login.F = true
		ops = append(ops, login)
		if chance(t, "second", 40) {
			b2 := rapid.IntRange(0, e.nBrows-1).Draw(t, "b2")
			ops = append(ops, Op{K: "newsess", B: b2}, Op{K: "login", B: b2, A: a, Src: "pw", SA: a, F: true})
		}
		for k := rapid.IntRange(0, 2).Draw(t, "rotations"); k > 0; k-- {
			ops = append(ops, Op{K: "newsess", B: b}, Op{K: "visit", B: b, S: pick(t, "route", "/p/none", "/open", "/p/full")})
		}
		if c.Has("recover") && chance(t, "viarecover", 35) {
			ops = append(ops, Op{K: "recstart", B: b, A: a}, Op{K: "recend", B: b, A: a, Src: "rectok", SA: a, S: pick(t, "pw", goodPWs...)})
		} else {
			ops = append(ops, Op{K: "updpw", A: a, S: pick(t, "pw", goodPWs...)})
		}
		for k := rapid.IntRange(1, 3).Draw(t, "comebacks"); k > 0; k-- {
			b3 := rapid.IntRange(0, e.nBrows-1).Draw(t, "b3")
			ops = append(ops, Op{K: "setcookie", B: b3, Src: "cookie", SA: a, SN: rapid.IntRange(0, 3).Draw(t, "oldn")}, Op{K: "newsess", B: b3}, Op{K: "visit", B: b3, S: pick(t, "route2", "/p/none", "/open")})
		}
	case "oauth":
		if !c.Has("oauth2") {
			return nil
		}
		prov := rapid.IntRange(0, 1).Draw(t, "prov")
		ops = append(ops, Op{K: "o2start", B: b, N: prov, F: chance(t, "rm", 40), S2: pick(t, "redir", redirPool...)},
			Op{K: "o2cb", B: b, N: prov, Src: "state", SA: b, S: pick(t, "code", "code-u1", "code-u2", "code-weird", "code-n1", "code-n2")})
		if chance(t, "replaycb", 40) {
			ops = append(ops, Op{K: "o2cb", B: rapid.IntRange(0, e.nBrows-1).Draw(t, "b2"), N: prov, Src: "stateold", SA: b, S: "code-u1"})
		}
		if c.Has("remember") && chance(t, "revisit", 50) {
			ops = append(ops, Op{K: "newsess", B: b}, Op{K: "visit", B: b, S: pick(t, "route", visitRoutes...)})
		}
	case "oauthdeny":
		// a logged-in user starts "connect with <provider>" and presses cancel there: the provider's callback reports an error
		if !c.Has("oauth2") || !c.Has("auth") {
			return nil
		}
		prov := rapid.IntRange(0, 1).Draw(t, "prov")
		ops = append(ops, login)
		for k := rapid.IntRange(1, 4).Draw(t, "ndeny"); k > 0; k-- {
			ops = append(ops, Op{K: "o2start", B: b, N: prov}, Op{K: "o2cb", B: b, N: prov, Src: "state", SA: b, S: "code-u1", F: true})
		}
		if chance(t, "then", 60) {
			ops = append(ops, Op{K: "newsess", B: b}, Op{K: "login", B: b, A: a, Src: pick(t, "thenpw", "pw", "pw", "lit"), SA: a, S: "wrong-Pass1!"})
		}
	case "2fa":
		if !c.Has("auth") {
			return nil
		}
		ops = append(ops, login)
		switch {
		case c.HasSetup("totp") && (!c.HasSetup("sms") || chance(t, "totp", 50)):
			if chance(t, "nearmiss", 40) {
				ops = append(ops, Op{K: "totpvalidate", B: b, A: a, Src: pick(t, "nm", "totp", "totpprev", "rand6", "rec"), SA: (a + 1) % e.nAcct, F: false})
			}
			ops = append(ops, Op{K: "totpvalidate", B: b, A: a, Src: "totp", SA: a})
		case c.HasSetup("sms"):
			if chance(t, "resend", 30) {
				ops = append(ops, Op{K: "advance", N: 12}, Op{K: "smsresend", B: b, S: "validate"})
			}
			ops = append(ops, Op{K: "smsvalidate", B: b, A: a, Src: "smssess"})
		}
	case "otp":
		if !c.Has("otp") || !c.Has("auth") {
			return nil
		}
		ops = append(ops, login, Op{K: "otpadd", B: b}, Op{K: "logout", B: b}, Op{K: "otplogin", B: b, A: a, Src: "otp", SA: a})
		if chance(t, "replay", 50) {
			ops = append(ops, Op{K: "newsess", B: b}, Op{K: "otplogin", B: b, A: a, Src: "otp", SA: a})
		}
	case "register":
		if !c.Has("register") {
			return nil
		}
		n := rapid.IntRange(0, 3).Draw(t, "newpid")
		ops = append(ops, Op{K: "register", B: b, A: -1, N: n, Src: "lit", S: pick(t, "pw", goodPWs...)})
		if c.Has("confirm") {
			if chance(t, "nearmiss", 45) {
				nm := Op{K: "confirm", B: b, A: e.nAcct, SA: e.nAcct}
				switch pick(t, "nmkind", "flipver", "flipsel", "raw", "trunc", "dot") {
				case "flipver":
					nm.Src, nm.Mut, nm.MA = "cnftok", "flip", 256+rapid.IntRange(0, 255).Draw(t, "bit")
				case "flipsel":
					nm.Src, nm.Mut, nm.MA = "cnftok", "flip", rapid.IntRange(0, 255).Draw(t, "bit")
				case "raw":
					nm.Src = "cnfraw"
				case "trunc":
					nm.Src, nm.Mut, nm.MA = "cnftok", pick(t, "tm", "truncbytes", "extbytes"), rapid.IntRange(0, 63).Draw(t, "n")
				case "dot":
					nm.Src, nm.Mut = "cnftok", "dot"
				}
				ops = append(ops, nm)
			}
			ops = append(ops, Op{K: "confirm", B: b, A: e.nAcct, Src: "cnftok", SA: e.nAcct})
			if chance(t, "loginafter", 60) {
				ops = append(ops, Op{K: "login", B: b, A: e.nAcct, Src: "pw", SA: e.nAcct})
			}
		}
	case "evleak":
		// the mailed 2FA e-mail-verify link is opened by a session that is not (fully) authed any more
		if !c.Has("auth") || !c.EmailAuth {
			return nil
		}
		k := rapid.IntRange(0, 1).Draw(t, "evkind")
		if c.Middleware == "remember" && chance(t, "viahalf", 40) {
			login.F = true
		}
		ops = append(ops, login)
		if c.HasSetup("totp") {
			ops = append(ops, Op{K: "totpvalidate", B: b, A: a, Src: "totp", SA: a})
		}
		if c.HasSetup("sms") {
			ops = append(ops, Op{K: "smsvalidate", B: b, A: a, Src: "smssess"})
		}
		ops = append(ops, Op{K: "evstart", B: b, N: k})
		ops = append(ops, Op{K: pick(t, "leave", "newsess", "logout", "newsess"), B: b})
		ops = append(ops, Op{K: "evend", B: b, A: a, N: k, Src: "evtok", SA: a})
	case "evcarry":
		// one account passes the 2FA e-mail verification; without a logout another account logs in to the same
		// session and goes for the enrolment routes
		if !c.Has("auth") || !c.EmailAuth || e.nAcct < 2 {
			return nil
		}
		k := rapid.IntRange(0, 1).Draw(t, "evkind")
		if chance(t, "firsttwo", 60) {
			a = rapid.IntRange(0, 1).Draw(t, "first")
		}
		a2 := (a + 1) % e.nAcct
		if a < 2 {
			a2 = 1 - a
		}
		for i, x := range []int{a, a2} {
			ops = append(ops, Op{K: "login", B: b, A: x, Src: "pw", SA: x})
			if c.HasSetup("totp") {
				ops = append(ops, Op{K: "totpvalidate", B: b, A: x, Src: "totp", SA: x})
			}
			if c.HasSetup("sms") {
				ops = append(ops, Op{K: "smsvalidate", B: b, A: x, Src: "smssess"})
			}
			if i == 0 {
				ops = append(ops, Op{K: "evstart", B: b, N: k}, Op{K: "evend", B: b, A: x, N: k, Src: "evtok", SA: x})
			}
		}
		if k == 0 && c.HasSetup("totp") || !c.HasSetup("sms") {
			ops = append(ops, Op{K: "totpsetup", B: b}, Op{K: "totpconfirm", B: b, A: a2, Src: "totpsess"})
		} else {
			ops = append(ops, Op{K: "smssetup", B: b, S: "+15550009"}, Op{K: "smsconfirm", B: b, A: a2, Src: "smssess"})
		}
	case "evshare":
		// two accounts use one browser session one after the other (no logout in between) and both ask for the 2FA verification mail
		if !c.Has("auth") || !c.EmailAuth || e.nAcct < 2 {
			return nil
		}
		k := rapid.IntRange(0, 1).Draw(t, "evkind")
		a2 := (a + 1 + rapid.IntRange(0, e.nAcct-2).Draw(t, "other")) % e.nAcct
		for _, x := range []int{a, a2} {
			ops = append(ops, Op{K: "login", B: b, A: x, Src: "pw", SA: x})
			if c.HasSetup("totp") {
				ops = append(ops, Op{K: "totpvalidate", B: b, A: x, Src: "totp", SA: x})
			}
			if c.HasSetup("sms") {
				ops = append(ops, Op{K: "smsvalidate", B: b, A: x, Src: "smssess"})
			}
			ops = append(ops, Op{K: "evstart", B: b, N: k})
		}
	case "mangle":
		// realistic manglings of genuine mailed tokens (copy/paste accidents)
		mut := pick(t, "mangle", "dot", "space", "ext", "crlf", "lead", "double", "std64", "trunc")
		if c.Has("confirm") {
			ops = append(ops, Op{K: "reconfirm", A: a}, Op{K: "confirm", B: b, A: a, Src: "cnftok", SA: a, Mut: mut, MA: rapid.IntRange(0, 80).Draw(t, "ma")})
		}
		if c.Has("recover") {
			ops = append(ops, Op{K: "recstart", B: b, A: a}, Op{K: "recend", B: b, A: a, Src: "rectok", SA: a, Mut: mut, MA: rapid.IntRange(0, 80).Draw(t, "ma2"), S: pick(t, "pw", goodPWs...)})
		}
	case "rememberedpoke":
		// the very request that presents a remember cookie (no session yet) goes straight to a 2FA settings route
		if !c.Has("auth") || c.Middleware != "remember" {
			return nil
		}
		login.F = true
		ops = append(ops, login)
		if c.HasSetup("totp") {
			ops = append(ops, Op{K: "totpvalidate", B: b, A: a, Src: "totp", SA: a})
		}
		if c.HasSetup("sms") {
			ops = append(ops, Op{K: "smsvalidate", B: b, A: a, Src: "smssess"})
		}
		ops = append(ops, Op{K: "newsess", B: b})
		if chance(t, "visitfirst", 40) {
			ops = append(ops, Op{K: "visit", B: b, S: "/open"}) // the half-auth mark is in the session by now
		}
		switch pick(t, "rpoke", "regen", "totpremove-rec", "smsremove-rec", "totpremove-code", "totpsetup", "smsenrol", "smsenrol") {
		case "smsenrol":
			if c.EmailAuth {
				ops = append(ops, Op{K: "evstart", B: b, N: 1}, Op{K: "evend", B: b, A: a, N: 1, Src: "evtok", SA: a})
			}
			ops = append(ops, Op{K: "smssetup", B: b, S: pick(t, "number", "+15550009", "+4477000")}, Op{K: "smsconfirm", B: b, A: a, Src: "smssess"})
		case "regen":
			ops = append(ops, Op{K: "regen", B: b})
		case "totpremove-rec":
			ops = append(ops, Op{K: "totpremove", B: b, A: a, Src: "rec", SA: a, F: true})
		case "smsremove-rec":
			ops = append(ops, Op{K: "smsremove", B: b, A: a, Src: "rec", SA: a, F: true})
		case "totpremove-code":
			ops = append(ops, Op{K: "totpremove", B: b, A: a, Src: "totp", SA: a})
		case "totpsetup":
			ops = append(ops, Op{K: "totpsetup", B: b})
		}
	case "settings":
		// a fully authed owner (or somebody else) pokes at the 2FA settings
		if !c.Has("auth") {
			return nil
		}
		startHalf := c.Middleware == "remember" && chance(t, "starthalf", 30)
		if startHalf {
			login.F = true
		}
		ops = append(ops, login)
		if c.HasSetup("totp") {
			ops = append(ops, Op{K: "totpvalidate", B: b, A: a, Src: "totp", SA: a})
		}
		if c.HasSetup("sms") {
			ops = append(ops, Op{K: "smsvalidate", B: b, A: a, Src: "smssess"})
		}
		if startHalf {
			ops = append(ops, Op{K: "newsess", B: b})
			if chance(t, "firstvisit", 50) {
				ops = append(ops, Op{K: "visit", B: b, S: "/open"})
			} // else: the request that presents the remember cookie is itself one of the pokes below
			if chance(t, "pwonly", 45) {
				// only the password step of a fresh login from the half-authed session
				ops = append(ops, Op{K: "login", B: b, A: a, Src: "pw", SA: a}, Op{K: "regen", B: b})
			}
		}
		other := (a + 1) % e.nAcct
		for i := rapid.IntRange(1, 4).Draw(t, "npokes"); i > 0; i-- {
			switch pick(t, "poke", "evend-empty", "evend-absent", "evstart-end", "totpsetup", "smssetup-new", "smsremove-sess", "smsremove-own", "totpremove-own", "totpremove-other", "remove-rec", "remove-rec-other", "confirm-sess", "confirm-rec", "confirm-rec", "resend-remove", "advance", "sms-relabel", "sms-relabel", "totpremove-stale", "totpremove-stale", "totpsetup-stale") {
			case "totpremove-stale":
				// a code that stopped being current a period ago, or is not current yet
				ops = append(ops, Op{K: "totpremove", B: b, A: a, Src: pick(t, "stale", "totp-2", "totp-2", "totp+2"), SA: a})
			case "totpsetup-stale":
				ops = append(ops, Op{K: "totpsetup", B: b}, Op{K: "totpconfirm", B: b, A: a, Src: "totpsess-2", SA: a})
			case "confirm-rec":
				// an enrolment confirmed with an (own, unused) recovery code instead of the code for the new factor
				if chance(t, "whichfactor", 50) {
					ops = append(ops, Op{K: "smssetup", B: b, S: pick(t, "number", "+15550009", "+4477000")}, Op{K: "smsconfirm", B: b, A: a, Src: "rec", SA: a, SN: rapid.IntRange(0, 2).Draw(t, "recn"), F: true})
				} else {
					ops = append(ops, Op{K: "totpsetup", B: b}, Op{K: "totpconfirm", B: b, A: a, Src: "rec", SA: a, SN: rapid.IntRange(0, 2).Draw(t, "recn"), F: true})
				}
			case "sms-relabel":
				// a code texted to one number, then requests (inside the resend limit) that could re-label it
				ops = append(ops, Op{K: "smssetup", B: b, S: pick(t, "number", "+15550009", "+4477000")},
					Op{K: "smsresend", B: b, S: pick(t, "page", "remove", "remove", "validate", "confirm")},
					Op{K: pick(t, "use", "smsremove", "smsremove", "smsconfirm"), B: b, A: a, Src: pick(t, "csrc", "smssess", "smsany"), SN: 0})
			case "evend-empty":
				ops = append(ops, Op{K: "evend", B: b, A: a, N: rapid.IntRange(0, 1).Draw(t, "k"), Src: "empty"})
			case "evend-absent":
				ops = append(ops, Op{K: "evend", B: b, A: a, N: rapid.IntRange(0, 1).Draw(t, "k"), Src: "absent"})
			case "evstart-end":
				k := rapid.IntRange(0, 1).Draw(t, "k")
				ops = append(ops, Op{K: "evstart", B: b, N: k}, Op{K: "evend", B: b, A: a, N: k, Src: pick(t, "evsrc", "evtok", "evtok", "sesstok", "empty"), SA: pick(t, "evwho", a, a, other)})
			case "totpsetup":
				ops = append(ops, Op{K: "totpsetup", B: b}, Op{K: "totpconfirm", B: b, A: a, Src: pick(t, "csrc", "totpsess", "totpsess", "totpsess-2", "totp", "rand6"), SA: a})
			case "smssetup-new":
				ops = append(ops, Op{K: "smssetup", B: b, S: pick(t, "number", "+15550009", "+4477000")})
			case "confirm-sess":
				ops = append(ops, Op{K: "smsconfirm", B: b, A: a, Src: pick(t, "ssrc", "smssess", "smssess", "sms", "rand6"), SA: a})
			case "smsremove-sess":
				ops = append(ops, Op{K: "smsremove", B: b, A: a, Src: "smssess"})
			case "smsremove-own":
				ops = append(ops, Op{K: "advance", N: 12}, Op{K: "smsresend", B: b, S: "remove"}, Op{K: "smsremove", B: b, A: a, Src: "sms", SA: a})
			case "resend-remove":
				ops = append(ops, Op{K: "smsresend", B: b, S: pick(t, "page", "remove", "confirm", "validate")})
			case "totpremove-own":
				ops = append(ops, Op{K: "totpremove", B: b, A: a, Src: "totp", SA: a})
			case "totpremove-other":
				ops = append(ops, Op{K: "totpremove", B: b, A: a, Src: "totp", SA: other})
			case "remove-rec":
				ops = append(ops, Op{K: pick(t, "rk", "totpremove", "smsremove"), B: b, A: a, Src: "rec", SA: a, F: true})
			case "remove-rec-other":
				ops = append(ops, Op{K: pick(t, "rk", "totpremove", "smsremove"), B: b, A: a, Src: "rec", SA: other, F: true})
			case "advance":
				ops = append(ops, Op{K: "advance", N: pick(t, "g", 3, 12)})
			}
		}
	case "switch2fa":
		// an attacker with an own 2FA account (a2) and the victim's password (a): fully logged in as a2, the victim's
		// password step is made in the same session, then the attacker's OWN code / recovery code is presented
		if !c.Has("auth") || e.nAcct < 2 || (!c.HasSetup("totp") && !c.HasSetup("sms")) {
			return nil
		}
		a2 := (a + 1 + rapid.IntRange(0, e.nAcct-2).Draw(t, "attacker")) % e.nAcct
		ops = append(ops, Op{K: "newsess", B: b}, Op{K: "login", B: b, A: a2, Src: "pw", SA: a2})
		if c.HasSetup("totp") {
			ops = append(ops, Op{K: "totpvalidate", B: b, A: a2, Src: "totp", SA: a2})
		}
		if c.HasSetup("sms") {
			ops = append(ops, Op{K: "smsvalidate", B: b, A: a2, Src: "smssess"})
		}
		ops = append(ops, login)
		switch {
		case c.HasSetup("totp") && (!c.HasSetup("sms") || chance(t, "viatotp", 60)):
			if chance(t, "userec", 40) {
				ops = append(ops, Op{K: "totpvalidate", B: b, A: a, Src: "rec", SA: a2, SN: rapid.IntRange(0, 1).Draw(t, "recn"), F: true})
			} else {
				ops = append(ops, Op{K: "totpvalidate", B: b, A: a, Src: "totp", SA: a2})
			}
		default:
			if chance(t, "userec", 50) {
				ops = append(ops, Op{K: "smsvalidate", B: b, A: a, Src: "rec", SA: a2, SN: rapid.IntRange(0, 1).Draw(t, "recn"), F: true})
			} else {
				ops = append(ops, Op{K: "advance", N: 12}, Op{K: "smsresend", B: b, S: "validate"}, Op{K: "smsvalidate", B: b, A: a, Src: "smssess"})
			}
		}
		ops = append(ops, Op{K: "visit", B: b, S: pick(t, "route", "/p/none", "/p/2fa", "/p/full")})
	case "rec2fa":
		// complete a 2FA login with a recovery code, then replay the same code
		if !c.Has("auth") || (!c.HasSetup("totp") && !c.HasSetup("sms")) {
			return nil
		}
		// prefer an account that has a factor and recovery codes (a random one rarely does)
		var elig []int
		for i, acc := range c.Accounts {
			if i < e.nAcct && acc.Recovery > 0 && ((acc.TOTP && c.HasSetup("totp")) || (acc.Phone != "" && c.HasSetup("sms"))) {
				elig = append(elig, i)
			}
		}
		page := "totpvalidate"
		if !c.HasSetup("totp") || (c.HasSetup("sms") && chance(t, "smspage", 50)) {
			page = "smsvalidate"
		}
		nmax := 2
		if len(elig) > 0 && chance(t, "eligible", 85) {
			a = elig[rapid.IntRange(0, len(elig)-1).Draw(t, "eligacct")]
			login = Op{K: "login", B: b, A: a, Src: "pw", SA: a}
			acc := c.Accounts[a]
			switch {
			case acc.TOTP && c.HasSetup("totp") && !(acc.Phone != "" && c.HasSetup("sms") && chance(t, "viasms", 40)):
				page = "totpvalidate"
			case acc.Phone != "" && c.HasSetup("sms"):
				page = "smsvalidate"
			}
			nmax = acc.Recovery - 1
		}
		n := rapid.IntRange(0, nmax).Draw(t, "recn")
		if chance(t, "fresh", 70) {
			ops = append(ops, Op{K: "newsess", B: b}) // somebody else's login left in this browser would be the one the code page acts on
		}
		ops = append(ops, login, Op{K: page, B: b, A: a, Src: "rec", SA: a, SN: n, F: true})
		if chance(t, "reuseforremove", 25) {
			// present the code that just logged in where a recovery code disables the factor ...
			rm := "totpremove"
			if !c.HasSetup("totp") || (c.HasSetup("sms") && chance(t, "rmsms", 50)) {
				rm = "smsremove"
			}
			ops = append(ops, Op{K: rm, B: b, A: a, Src: "rec", SA: a, SN: n, F: true})
		} else if chance(t, "replay", 85) {
			// ... or log in with it once more
			ops = append(ops, Op{K: "newsess", B: b}, login, Op{K: page, B: b, A: a, Src: "rec", SA: a, SN: n, F: true})
		}
		if chance(t, "smsreplay", 40) && c.HasSetup("sms") {
			ops = append(ops, Op{K: "newsess", B: b}, login, Op{K: "smsvalidate", B: b, A: a, Src: "smssess"}, Op{K: "newsess", B: b}, Op{K: "advance", N: 12}, login,
				Op{K: "smsvalidate", B: b, A: a, Src: "sms", SA: a, SN: 1})
		}
		if chance(t, "totpreplay", 40) && c.HasSetup("totp") {
			ops = append(ops, Op{K: "newsess", B: b}, login, Op{K: "totpvalidate", B: b, A: a, Src: "totp", SA: a}, Op{K: "newsess", B: b}, login,
				Op{K: "totpvalidate", B: b, A: a, Src: "totp", SA: a, Mut: pick(t, "respell", "", "", "space", "lead")})
		}
	case "logoutfrom":
		// reach a session state, then log out
		for i := rapid.IntRange(0, 2).Draw(t, "nset"); i > 0; i-- {
			ops = append(ops, Op{K: "set", B: b, S: pick(t, "appkey", harness.AppKeys...), S2: pick(t, "appval", "dark", "3", "fr")})
		}
		state := pick(t, "state", "loggedin", "half", "mid2fa", "mid2fasetup", "midoauth", "emailverify", "expired", "anon")
		full := []Op{login}
		if c.HasSetup("totp") {
			full = append(full, Op{K: "totpvalidate", B: b, A: a, Src: "totp", SA: a})
		}
		if c.HasSetup("sms") {
			full = append(full, Op{K: "smsvalidate", B: b, A: a, Src: "smssess"})
		}
		switch state {
		case "loggedin":
			ops = append(ops, full...)
		case "half":
			full[0].F = true
			ops = append(ops, full...)
			ops = append(ops, Op{K: "newsess", B: b})
			if chance(t, "visitfirst", 50) {
				ops = append(ops, Op{K: "visit", B: b, S: "/open"})
			} // else: the logout itself is the request that presents the remember cookie
		case "mid2fa":
			ops = append(ops, login)
		case "mid2fasetup":
			ops = append(ops, full...)
			if c.EmailAuth {
				k := rapid.IntRange(0, 1).Draw(t, "evkind")
				ops = append(ops, Op{K: "evstart", B: b, N: k}, Op{K: "evend", B: b, A: a, N: k, Src: "evtok", SA: a})
			}
			ops = append(ops, Op{K: "totpsetup", B: b}, Op{K: "smssetup", B: b, S: "+15550009"})
		case "midoauth":
			ops = append(ops, Op{K: "o2start", B: b, N: 0, F: true, S2: "/back/here"})
		case "emailverify":
			ops = append(ops, full...)
			ops = append(ops, Op{K: "evstart", B: b, N: rapid.IntRange(0, 1).Draw(t, "evkind")})
		case "expired":
			ops = append(ops, full...)
			ops = append(ops, Op{K: "advance", N: 100000})
		}
		lo := Op{K: "logout", B: b}
		if chance(t, "othermethod", 20) {
			lo.S = pick(t, "method", "GET", "POST", "DELETE", "PUT", "HEAD", "PATCH")
			if chance(t, "methodhint", 40) {
				lo.S2 = pick(t, "hint", "hdr", "hdr2", "query", "querylower", "form")
			}
		}
		ops = append(ops, lo)
		if chance(t, "after", 40) {
			ops = append(ops, Op{K: "visit", B: b, S: pick(t, "route", visitRoutes...)})
		}
	case "idle":
		if !c.Has("auth") {
			return nil
		}
		ops = append(ops, login)
		if chance(t, "reloginstale", 25) {
			// away for longer than the limit, then straight to the login form again (same session)
			ops = append(ops, Op{K: "advance", N: 7}, login) // C09 maps N onto its gap list (index 7: just outside the limit)
		}
		if c.HasSetup("totp") {
			ops = append(ops, Op{K: "totpvalidate", B: b, A: a, Src: "totp", SA: a})
		}
		if c.HasSetup("sms") {
			ops = append(ops, Op{K: "smsvalidate", B: b, A: a, Src: "smssess"})
		}
		for i := rapid.IntRange(0, 2).Draw(t, "nset"); i > 0; i-- {
			ops = append(ops, Op{K: "set", B: b, S: pick(t, "appkey", harness.AppKeys...), S2: pick(t, "appval", "dark", "3", "fr")})
		}
		switch pick(t, "extra", "none", "none", "oauth", "totpsetup", "smssetup") {
		case "oauth":
			if c.Has("oauth2") {
				ops = append(ops, Op{K: "o2start", B: b, N: 0, S2: "/back/here"})
			}
		case "totpsetup":
			if c.HasSetup("totp") {
				ops = append(ops, Op{K: "totpsetup", B: b})
			}
		case "smssetup":
			if c.HasSetup("sms") {
				ops = append(ops, Op{K: "smssetup", B: b, S: "+15550009"})
			}
		}
		for i := rapid.IntRange(1, 3).Draw(t, "nvisits"); i > 0; i-- {
			ops = append(ops, Op{K: "advance", N: rapid.IntRange(0, 6).Draw(t, "gapidx")}, Op{K: "visit", B: b, S: pick(t, "route", "/open", "/open", "/p/none", "/p/full", "/p/2fa")})
		}
	case "o2stale":
		// an abandoned start whose parameters must not leak into the next flow
		if !c.Has("oauth2") {
			return nil
		}
		prov := rapid.IntRange(0, 1).Draw(t, "prov")
		ops = append(ops, Op{K: "o2start", B: b, N: prov, F: chance(t, "rm1", 70), S2: pick(t, "redir", redirPool...)},
			Op{K: "o2start", B: b, N: prov, F: chance(t, "rm2", 15)},
			Op{K: "o2cb", B: b, N: prov, Src: "state", SA: b, S: pick(t, "code", "code-u1", "code-u2")})
		if c.Has("remember") {
			ops = append(ops, Op{K: "newsess", B: b}, Op{K: "visit", B: b, S: "/p/none"})
		}
	case "o2late":
		// the user leaves the provider's page open and comes back much later (or somebody else's callback arrives then)
		if !c.Has("oauth2") {
			return nil
		}
		prov := rapid.IntRange(0, 1).Draw(t, "prov")
		ops = append(ops, Op{K: "o2start", B: b, N: prov, S2: pick(t, "redir", redirPool...)},
			Op{K: "advance", N: pick(t, "late", 600, 3500, 3700, 7200, 100000, 1000000)},
			Op{K: "o2cb", B: b, N: prov, Src: pick(t, "latestate", "state", "state", "empty", "absent", "lit"), SA: b, S: pick(t, "code", "code-u1", "code-u2")})
	case "oauthlock":
		if !c.Has("oauth2") {
			return nil
		}
		ops = append(ops, Op{K: "o2start", B: b, N: 0}, Op{K: "o2cb", B: b, N: 0, Src: "state", SA: b, S: "code-u1"})
		if c.Has("lock") {
			ops = append(ops, Op{K: pick(t, "lk", "lock", "lock", "lock", "unlock"), A: e.nAcct + rapid.IntRange(0, 1).Draw(t, "newacct")})
		}
		if chance(t, "logout", 50) {
			ops = append(ops, Op{K: "newsess", B: b})
		}
		ops = append(ops, Op{K: "o2start", B: b, N: 0}, Op{K: "o2cb", B: b, N: 0, Src: "state", SA: b, S: "code-u1"}, Op{K: "visit", B: b, S: "/p/lock"})
	case "lockprobe":
		if !c.Has("auth") {
			return nil
		}
		ops = append(ops, login)
		if c.HasSetup("totp") {
			ops = append(ops, Op{K: "totpvalidate", B: b, A: a, Src: "totp", SA: a})
		}
		if c.HasSetup("sms") {
			ops = append(ops, Op{K: "smsvalidate", B: b, A: a, Src: "smssess"})
		}
		switch {
		case c.Has("lock") && (!c.Has("confirm") || chance(t, "lockorconf", 50)):
			ops = append(ops, Op{K: pick(t, "lk", "lock", "lock", "unlock"), A: a}, Op{K: "visit", B: b, S: pick(t, "lockroute", "/p/lock", "/p/lock", "/q/lock")})
			if chance(t, "hiccup", 25) {
				// the middleware's own user lookup meets a storage error
				ops = append(ops, Op{K: "visit", B: b, S: "/q/lock", FN: "Load"})
			}
			if chance(t, "expire", 30) {
				ops = append(ops, Op{K: "advance", N: pick(t, "lgap", 20, 45, 700, 50000)}, Op{K: "visit", B: b, S: "/p/lock"})
			}
		case c.Has("confirm"):
			if chance(t, "re", 70) {
				ops = append(ops, Op{K: "reconfirm", A: a})
			}
			ops = append(ops, Op{K: "visit", B: b, S: pick(t, "confroute", "/p/confirm", "/p/confirm", "/q/confirm")})
			if chance(t, "hiccup", 25) {
				ops = append(ops, Op{K: "visit", B: b, S: "/q/confirm", FN: "Load"})
			}
		}
	case "lockmid2fa":
		if !c.Has("auth") || !c.Has("lock") {
			return nil
		}
		ops = append(ops, login, Op{K: "lock", A: a})
		if c.HasSetup("totp") {
			ops = append(ops, Op{K: "totpvalidate", B: b, A: a, Src: "totp", SA: a})
		}
		if c.HasSetup("sms") {
			ops = append(ops, Op{K: "smsvalidate", B: b, A: a, Src: "smssess"})
		}
	case "enrol-totp":
		if !c.HasSetup("totp") || !c.Has("auth") {
			return nil
		}
		ops = append(ops, login)
		if c.EmailAuth {
			ops = append(ops, Op{K: "evstart", B: b, N: 0}, Op{K: "evend", B: b, A: a, N: 0, Src: "evtok", SA: a})
		}
		ops = append(ops, Op{K: "totpsetup", B: b}, Op{K: "totpconfirm", B: b, A: a, Src: "totpsess"})
	case "numberswap":
		// the registered number changes between the password step and the code step
		if !c.HasSetup("sms") || !c.Has("auth") {
			return nil
		}
		ops = append(ops, login, Op{K: "setphone", A: a, S: pick(t, "newphone", "+15557770001", "+15557770002")},
			Op{K: "smsvalidate", B: b, A: a, Src: pick(t, "codesrc", "smssess", "smsany"), SA: a})
	case "setupcarry":
		// an unfinished SMS setup of one account, then (same session, no logout) the password
		// step of an SMS account: where does the re-sent login code go?
		if !c.HasSetup("sms") || !c.Has("auth") || e.nAcct < 2 {
			return nil
		}
		v := (a + 1 + rapid.IntRange(0, e.nAcct-2).Draw(t, "victim")) % e.nAcct
		ops = append(ops, login)
		if c.EmailAuth {
			ops = append(ops, Op{K: "evstart", B: b, N: 1}, Op{K: "evend", B: b, A: a, N: 1, Src: "evtok", SA: a})
		}
		ops = append(ops, Op{K: "smssetup", B: b, S: pick(t, "number", "+15550009", "+4477000")},
			Op{K: "login", B: b, A: v, Src: "pw", SA: v})
		if chance(t, "wait", 60) {
			ops = append(ops, Op{K: "advance", N: 12})
		}
		ops = append(ops, Op{K: "smsresend", B: b, S: "validate"}, Op{K: "smsvalidate", B: b, A: v, Src: pick(t, "codesrc", "smssess", "smsany", "sms"), SA: v})
	case "enrolreplay":
		// enrol TOTP with code X, then try X again as a login code while it is still valid
		// (an enrolment hashes ten recovery codes at the library's fixed bcrypt cost, ~0.5 s:
		// only one world in six spends that time)
		if !c.HasSetup("totp") || !c.Has("auth") || c.Seed%6 != 0 {
			return nil
		}
		ops = append(ops, login)
		if c.EmailAuth {
			ops = append(ops, Op{K: "evstart", B: b, N: 0}, Op{K: "evend", B: b, A: a, N: 0, Src: "evtok", SA: a})
		}
		ops = append(ops, Op{K: "totpsetup", B: b}, Op{K: "totpconfirm", B: b, A: a, Src: "totpsess"})
		b2 := rapid.IntRange(0, e.nBrows-1).Draw(t, "sbrowser2")
		if b2 == b {
			ops = append(ops, Op{K: "newsess", B: b})
		}
		ops = append(ops, Op{K: "login", B: b2, A: a, Src: "pw", SA: a}, Op{K: "totpvalidate", B: b2, A: a, Src: "totp", SA: a})
	case "smsfaultreplay":
		// the SMS step with one backend call failed, then the very same code again
		if !c.HasSetup("sms") || !c.Has("auth") {
			return nil
		}
		ops = append(ops, login, Op{K: "smsvalidate", B: b, A: a, Src: "smssess", FA: rapid.IntRange(1, 8).Draw(t, "fa"), FK: "generic"},
			Op{K: "smsvalidate", B: b, A: a, Src: pick(t, "again", "sms", "sms", "smssess"), SA: a})
	case "removereplay":
		// log in with TOTP code X, then present X again where a code disables the factor
		if !c.HasSetup("totp") || !c.Has("auth") {
			return nil
		}
		ops = append(ops, login, Op{K: "totpvalidate", B: b, A: a, Src: "totp", SA: a})
		if chance(t, "gap", 30) {
			ops = append(ops, Op{K: "advance", N: pick(t, "rgap", 1, 3, 8)})
		}
		ops = append(ops, Op{K: "totpremove", B: b, A: a, Src: pick(t, "rsrc", "totp", "totp", "totpprev"), SA: a})
	case "enrol-sms":
		if !c.HasSetup("sms") || !c.Has("auth") {
			return nil
		}
		ops = append(ops, login)
		if c.EmailAuth {
			ops = append(ops, Op{K: "evstart", B: b, N: 1}, Op{K: "evend", B: b, A: a, N: 1, Src: "evtok", SA: a})
		}
		ops = append(ops, Op{K: "smssetup", B: b, S: pick(t, "number", "+15550001", "+15550009")}, Op{K: "smsconfirm", B: b, A: a, Src: "smssess"})
	case "smsrekey":
		// an account that already has SMS 2FA starts an enrolment for another number, and between setup and confirm visits
		// the pages that text the number on file (remove, validate) or asks for the code again: whatever confirms the new
		// number must have been texted to the new number
		if !c.HasSetup("sms") || !c.Has("auth") {
			return nil
		}
		var owners []int
		for i, ac := range c.Accounts {
			if ac.Phone != "" && !ac.TOTP {
				owners = append(owners, i)
			}
		}
		if len(owners) == 0 {
			return nil
		}
		a = rapid.SampledFrom(owners).Draw(t, "smsowner")
		ops = append(ops, Op{K: "newsess", B: b}, Op{K: "login", B: b, A: a, Src: "pw", SA: a}, Op{K: "smsvalidate", B: b, A: a, Src: "sms", SA: a})
		if c.EmailAuth {
			ops = append(ops, Op{K: "evstart", B: b, N: 1}, Op{K: "evend", B: b, A: a, N: 1, Src: "evtok", SA: a})
		}
		ops = append(ops, Op{K: "smssetup", B: b, S: pick(t, "newnumber", "+15557770001", "+15550009")})
		if chance(t, "ratelimitover", 75) {
			ops = append(ops, Op{K: "advance", N: pick(t, "wait", 12, 20, 45)})
		}
		for k := rapid.IntRange(1, 2).Draw(t, "detours"); k > 0; k-- {
			ops = append(ops, Op{K: "smsresend", B: b, S: pick(t, "page", "remove", "confirm", "confirm", "validate")})
			if chance(t, "wait2", 30) {
				ops = append(ops, Op{K: "advance", N: 12})
			}
		}
		ops = append(ops, Op{K: "smsconfirm", B: b, A: a, Src: pick(t, "codefrom", "smssess", "smssess", "sms", "smsany"), SA: a})
	}
	return ops
}

// kindEnabled drops op kinds whose module is not loaded in this configuration
// (construction instead of rejection).
func kindEnabled(k string, c harness.Config) bool {
	switch k {
	case "login":
		return c.Has("auth")
	case "otplogin", "otpadd", "otpclear":
		return c.Has("otp")
	case "register":
		return c.Has("register")
	case "confirm", "reconfirm":
		return c.Has("confirm")
	case "recstart", "recend", "recget":
		return c.Has("recover")
	case "logout":
		return c.Has("logout")
	case "lock", "unlock":
		return c.Has("lock")
	case "o2start", "o2cb":
		return c.Has("oauth2")
	case "steal", "setcookie", "dropcookie":
		return c.Has("remember")
	case "totpsetup", "totpconfirm", "totpremove", "totpvalidate":
		return c.HasSetup("totp")
	case "smssetup", "smsconfirm", "smsremove", "smsvalidate", "smsresend":
		return c.HasSetup("sms")
	case "regen":
		return c.HasSetup("recovery")
	case "evstart", "evend":
		return c.EmailAuth && (c.HasSetup("totp") || c.HasSetup("sms"))
	}
	return true
}

func genCase(t *rapid.T, p profile) Case {
	cfg := genConfig(t, p)
	e := genEnv{cfg: cfg, nAcct: len(cfg.Accounts), nBrows: cfg.Browsers}
	c := Case{Cfg: cfg, Ops: genOps(t, p, e)}
	decorateFaults(t, p, c.Ops)
	decorateJSON(t, p, cfg, c.Ops)
	decorateQuery(t, p, cfg, c.Ops)
	decorateCancel(t, p, c.Ops)
	return c
}

func decorateCancel(t *rapid.T, p profile, ops []Op) {
	if p.cancelPct <= 0 {
		return
	}
	for i := range ops {
		switch ops[i].K {
		case "advance", "newsess", "steal", "setcookie", "dropcookie", "lock", "unlock", "updpw", "setphone":
			continue
		}
		if ops[i].FA == 0 && chance(t, "cancel", p.cancelPct) {
			ops[i].FA = pick(t, "cancelat", 1, 1, 2, 2, 3)
			ops[i].FK = "cancel"
		}
	}
}

var junkQueries = []string{"utm=100%", "a=%zz", "a;b", "x=%", "%", "redir=%2", "q=%u00e9"}

func decorateQuery(t *rapid.T, p profile, cfg harness.Config, ops []Op) {
	if p.badQuery <= 0 || (!cfg.JSON && !p.badQueryForm) {
		return
	}
	for i := range ops {
		switch ops[i].K {
		case "login", "otplogin", "register", "recstart", "recend", "totpvalidate", "smsvalidate", "logout", "smsresend":
			if chance(t, "badquery", p.badQuery) {
				ops[i].RQ = pick(t, "junkquery", junkQueries...)
			}
		}
	}
}

// decorateJSON: in JSON mode a few requests carry a body that does not decode into
// string members (a boolean "rm", a numeric code, a cut-off body ...), as real API clients send.
func decorateJSON(t *rapid.T, p profile, cfg harness.Config, ops []Op) {
	if !cfg.JSON || p.jsonMangle <= 0 {
		return
	}
	for i := range ops {
		switch ops[i].K {
		case "login", "otplogin", "register", "recstart", "recend", "totpvalidate", "smsvalidate", "totpconfirm", "smsconfirm", "totpremove", "smsremove", "evend":
			if chance(t, "jsonmangle", p.jsonMangle) {
				ops[i].JM = pick(t, "jsonhow", "bool", "bool", "num", "null", "trunc", "trunc", "array", "nested")
			}
		}
	}
}

// decorateFaults gives a share (profile.faultPct) of the requests one failing backend call.
func decorateFaults(t *rapid.T, p profile, ops []Op) {
	if p.faultPct <= 0 {
		return
	}
	kinds := p.faultKinds
	if len(kinds) == 0 {
		kinds = []string{"generic"}
	}
	for i := range ops {
		if len(p.faultOps) > 0 && !contains(p.faultOps, ops[i].K) {
			continue
		}
		if ops[i].FA == 0 && chance(t, "fault", p.faultPct) {
			ops[i].FA = pick(t, "faultat", 1, 1, 1, 2, 2, 3, 3, 4, 5, 6, 7)
			ops[i].FK = pick(t, "faultkind", kinds...)
		}
	}
}

var allModules = []string{"auth", "confirm", "lock", "logout", "oauth2", "otp", "recover", "register", "remember"}

func contains(xs []string, x string) bool {
	for _, y := range xs {
		if y == x {
			return true
		}
	}
	return false
}
