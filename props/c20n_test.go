package props

import (
	"encoding/json"
	"fmt"
	"strings"
	"testing"

	"pgregory.net/rapid"

	"verif/harness"
)

// ---- C20, deterministic half: one client's request served in the middle of another client's request
//
// TestC20 lets the Go scheduler (perturbed) pick the interleavings and relies on
// the race detector plus transcript equality. State that is shared between
// requests *under a lock* (a cache keyed too coarsely, a pooled object, a
// sentinel guarded by a mutex) never races, and the window in which it shows
// can be one storage call wide. Here the schedule is owned by the harness: client
// A runs its script; at chosen backend / session-store / mailer / logger calls of
// A's requests, A is held and client B (other browser, other accounts) is served
// one whole request; then A continues. Both must observe exactly what they
// observe alone.

type c20nCase struct {
	Cfg     harness.Config `json:"cfg"`
	ScriptA []string       `json:"script_a"`
	ScriptB []string       `json:"script_b"`
	Ats     []int          `json:"ats"` // B's next request is served when A's run reaches its Ats[i]-th yield point
	Pre     int            `json:"pre"` // this many of B's requests are served before A starts (so that a later request of B's script is the nested one)
}

func c20nRun(c c20nCase) (*Violation, int) {
	w, err := harness.NewWorld(c.Cfg)
	if err != nil {
		st("C20").add("inconclusive", 1)
		return nil, 0
	}
	w.Concurrent = true
	cs := c20Clients(w, 2)
	a, b := cs[0], cs[1]
	goB, finB, endB := make(chan struct{}), make(chan struct{}), make(chan struct{})
	b.gate = func() { <-goB }
	b.ungate = func() { finB <- struct{}{} }
	go func() {
		b.run(c.ScriptB)
		close(endB)
	}()
	// serveB lets B perform exactly one request (false: B's script is over)
	bOver := false
	serveB := func() bool {
		if bOver {
			return false
		}
		select {
		case goB <- struct{}{}:
			<-finB
			return true
		case <-endB:
			bOver = true
			return false
		}
	}
	count, next, nested, inB, inA := 0, 0, 0, false, false
	hook := func() {
		if inB || !inA {
			return
		}
		count++
		for next < len(c.Ats) && c.Ats[next] <= count {
			next++
			inB = true
			if serveB() {
				nested++
			}
			inB = false
		}
	}
	w.B.Yield, w.Mail.Yield, w.Log.Yield = hook, hook, hook
	a.gate = func() { inA = true }
	a.ungate = func() { inA = false }
	inB = true
	for i := 0; i < c.Pre && serveB(); i++ {
	}
	inB = false
	a.run(c.ScriptA)
	inB = true
	for serveB() {
	}
	w.Close()
	if a.dead || b.dead {
		return violation("C20", "no-answer-nested", "a request did not return within %v when another client's request was served inside it", harness.HangAfter), nested
	}
	for i, cl := range []*c20Client{a, b} {
		sw, err := harness.NewWorld(c.Cfg)
		if err != nil {
			st("C20").add("inconclusive", 1)
			return nil, nested
		}
		sw.Concurrent = true
		solo := c20Clients(sw, 2)[i]
		solo.run([][]string{c.ScriptA, c.ScriptB}[i])
		sw.Close()
		x, y := cl.out, solo.out
		for j := 0; j < len(x) || j < len(y); j++ {
			var l, r string
			if j < len(x) {
				l = x[j]
			}
			if j < len(y) {
				r = y[j]
			}
			if l != r {
				step := strings.SplitN(r+":", ":", 2)[0]
				if dot := strings.IndexByte(step, '.'); dot >= 0 {
					step = step[dot+1:]
				}
				return violation("C20", "cross-talk-nested:"+step, "client %s, with the other client's requests served inside its own (%d nested), observed\n   nested: %s\n   alone:  %s", []string{"A", "B"}[i], nested, l, r), nested
			}
		}
	}
	return nil, nested
}

func c20nGen(t *rapid.T) c20nCase {
	var c c20nCase
	c.Cfg = harness.Config{Seed: rapid.Uint64Range(1, 1<<32).Draw(t, "seed"), Modules: []string{"auth", "confirm", "lock", "logout", "otp", "recover", "register", "remember", "oauth2"}, Providers: []string{"goog"}, ProviderParams: true,
		Setups: []string{"expire", "totp", "sms", "recovery"}, Mount: pick(t, "mount", "/auth", ""), JSON: chance(t, "json", 50), Browsers: 2, Middleware: "remember",
		LockAfter: 4, LockWindowS: 300, LockDurS: 600, RecoverLogin: chance(t, "reclogin", 50), ModuleList: chance(t, "modlist", 50), Err500: chance(t, "err500", 50), Refusal: 1}
	for i := 0; i < 2; i++ {
		c.Cfg.Accounts = append(c.Cfg.Accounts, harness.AccountSpec{PID: fmt.Sprintf("acct%d@x.io", i), Password: goodPWs[i%4], OTPs: 2})
	}
	for i := 0; i < 2; i++ {
		c.Cfg.Accounts = append(c.Cfg.Accounts, harness.AccountSpec{PID: fmt.Sprintf("bounce%d@refuse.x.io", i), Password: goodPWs[i%4]})
	}
	for i := 0; i < 2; i++ {
		c.Cfg.Accounts = append(c.Cfg.Accounts, harness.AccountSpec{PID: fmt.Sprintf("sms%d@x.io", i), Password: goodPWs[i%4], Phone: fmt.Sprintf("+1555010%d", i), Recovery: 1})
	}
	for i := 0; i < 2; i++ {
		c.Cfg.Accounts = append(c.Cfg.Accounts, harness.AccountSpec{PID: fmt.Sprintf("totp%d@x.io", i), Password: goodPWs[i%4], TOTP: true, Recovery: 1})
	}
	c.Cfg.OneTimeTOTP = chance(t, "onetimetotp", 60)
	steps := func(label string) []string {
		n := rapid.IntRange(1, 2).Draw(t, label)
		var sc []string
		for j := 0; j < n; j++ {
			sc = append(sc, pick(t, "step", c20Steps...))
		}
		return sc
	}
	c.ScriptA, c.ScriptB = steps("na"), steps("nb")
	if chance(t, "samekind", 50) {
		// both clients in the same flow: shared state of one module is touched from both sides
		c.ScriptB = append([]string(nil), c.ScriptA...)
	}
	// B's script advances to some request first; then yield points of A's run at which B gets a request served
	c.Pre = rapid.IntRange(0, 9).Draw(t, "pre")
	at := 0
	for k := rapid.IntRange(1, 6).Draw(t, "npoints"); k > 0; k-- {
		at += rapid.IntRange(1, 14).Draw(t, "gap")
		c.Ats = append(c.Ats, at)
	}
	return c
}

func TestC20Nested(t *testing.T) {
	s := st("C20")
	s.Rule = "nested (schedule owned by the harness): client A's script runs; at generated yield points inside A's requests (storage, session/cookie store, hasher, mailer, logger calls) A is held while one whole request of client B (other browser, other accounts) is served; oracle: both transcripts equal the solo transcripts, every request answered; non-trivial = >=1 request of B served inside a request of A"
	rapid.Check(t, func(rt *rapid.T) {
		c := c20nGen(rt)
		v, nested := c20nRun(c)
		classes := []string{"nested-schedule"}
		if nested >= 2 {
			classes = append(classes, "nested>=2")
		}
		s.record(nested >= 1, fnv64(fmt.Sprint(c.ScriptA, c.ScriptB, c.Ats, c.Pre), "nested", fmt.Sprint(c.Cfg.JSON, c.Cfg.OneTimeTOTP, c.Cfg.Err500)), classes, func() interface{} { return c })
		handle(rt, v, "c20n", c)
	})
}

func init() {
	replayers["c20n"] = func(raw json.RawMessage) (*Violation, error) {
		var c c20nCase
		if err := json.Unmarshal(raw, &c); err != nil {
			return nil, err
		}
		v, _ := c20nRun(c)
		return v, nil
	}
}
