package props

import (
	"fmt"
	"testing"

	"github.com/volatiletech/authboss/v3"
	"pgregory.net/rapid"

	"verif/harness"
)

// ---- C10: logout leaves nothing behind that could authenticate or continue a login

type monC10 struct{}

func (c *monC10) Init(m *Machine) {}

func sessionStateClasses(sess map[string]string) []string {
	var cl []string
	has := func(k string) bool { _, ok := sess[k]; return ok }
	if has(authboss.SessionKey) {
		if has(authboss.SessionHalfAuthKey) {
			cl = append(cl, "half-authed")
		} else {
			cl = append(cl, "logged-in")
		}
	}
	if has("totp_pending") || has("sms_pending") {
		cl = append(cl, "mid-2fa-login")
	}
	if has("totp_secret") || has("sms_number") {
		cl = append(cl, "mid-2fa-setup")
	}
	if has("sms_secret") {
		cl = append(cl, "sms-code-in-session")
	}
	if has(authboss.SessionOAuth2State) {
		cl = append(cl, "mid-oauth2")
	}
	if has(authboss.Session2FAAuthToken) || has(authboss.Session2FAAuthed) {
		cl = append(cl, "email-verify")
	}
	if has(authboss.Session2FA) {
		cl = append(cl, "2fa-marked")
	}
	if len(cl) == 0 {
		cl = append(cl, "anonymous")
	}
	return cl
}

func (c *monC10) After(m *Machine, s *Step) *Violation {
	if s.Op.K != "logout" || s.Resp == nil {
		return nil
	}
	op, r := s.Op, s.Resp
	cfg := m.C.Cfg
	b := op.B % len(m.W.Jars)
	configured := m.W.AB.Config.Modules.LogoutMethod
	method := op.S
	if method == "" {
		method = configured
	}
	if method != configured {
		// the remember/expire middlewares run before routing and may legitimately touch state
		_, hadCookie := r.CookBefore["rm"]
		// (with expire in front of remember, an idle session is wiped first and the cookie then re-authenticates it)
		rememberActs := cfg.Middleware == "remember" && (r.UIDBefore() == "" || cfg.ExpireOutside) && hadCookie
		sessChanged := fmt.Sprint(r.SessBefore) != fmt.Sprint(r.SessAfter)
		cookChanged := fmt.Sprint(r.CookBefore) != fmt.Sprint(r.CookAfter)
		if (sessChanged && cfg.Middleware != "expire" && !cfg.ExpireOutside && m.rotationOwner(s) == "") || (cookChanged && !rememberActs) {
			return violation("C10", "wrong-method-changed-state:"+method, "%s /logout (configured %s) changed client state: session %v -> %v cookies %v -> %v", method, configured, r.SessBefore, r.SessAfter, keysOf(r.CookBefore), keysOf(r.CookAfter))
		}
		if r.Status != 404 && r.Status != 405 {
			return violation("C10", "wrong-method-answered:"+method, "%s /logout (configured %s) answered %d", method, configured, r.Status)
		}
		m.flag("other-method-ignored")
		return nil
	}
	classes := sessionStateClasses(r.SessBefore)
	for _, cl := range classes {
		m.flag("from:" + cl)
	}
	nonWL, wl := 0, 0
	for k := range r.SessBefore {
		if inWhitelist(cfg, k) {
			wl++
		} else if k != authboss.FlashErrorKey && k != authboss.FlashSuccessKey {
			nonWL++
		}
	}
	if nonWL >= 1 && wl >= 1 && (len(classes) > 1 || classes[0] != "logged-in") {
		m.flag("nontrivial")
	}
	for k, v := range r.SessAfter {
		if inWhitelist(cfg, k) {
			continue
		}
		if k == authboss.FlashSuccessKey && !cfg.JSON && v == "You have been logged out" {
			continue // written by the logout redirect itself (everything older was deleted first)
		}
		return violation("C10", "key-survived-logout:"+k, "after logout (from %v) the session still holds %q=%q (all keys: %v)", classes, k, v, keysOf(r.SessAfter))
	}
	for _, k := range cfg.Whitelist {
		if want, ok := r.SessBefore[k]; ok && r.SessAfter[k] != want {
			return violation("C10", "whitelisted-key-lost", "logout dropped or changed whitelisted key %q (%q -> %q)", k, want, r.SessAfter[k])
		}
	}
	if _, ok := r.CookAfter["rm"]; ok {
		return violation("C10", "remember-cookie-survived", "after logout the remember cookie is still on the client")
	}
	// the browser's next request is unauthenticated
	next := m.W.Do(harness.Req{Browser: b, Method: "GET", Path: "/p/none"})
	if next.Rec.ProbeRan || next.UID() != "" {
		return violation("C10", "next-request-authenticated", "the request after logout was served as %q (probe ran %v)", next.UID(), next.Rec.ProbeRan)
	}
	return nil
}

func (c *monC10) End(m *Machine) *Violation { return nil }

var kindsC10 = append(append([]wk{}, worldKinds...), wk{"logout", 14}, wk{"snip:logoutfrom", 22}, wk{"snip:idlelogout", 8}, wk{"snip:enrol-totp", 2}, wk{"snip:enrol-sms", 2}, wk{"set", 5})

var profC10 = profile{
	must: []string{"auth", "logout"}, may: []string{"confirm", "lock", "oauth2", "otp", "recover", "register", "remember"},
	setups: []string{"totp", "sms", "recovery", "expire"}, kinds: kindsC10, minOps: 14, maxOps: 34,
	accts: [2]int{2, 3}, browsers: [2]int{1, 2}, middlewares: []string{"", "remember", "remember", "expire"},
	tweak: func(t *rapid.T, c *harness.Config) {
		c.LockAfter = rapid.IntRange(3, 6).Draw(t, "lockafter10")
		if c.Middleware == "remember" && chance(t, "nilstate10", 35) {
			c.NilEmptyState = true // a session store that answers nil for a browser without session
		}
		if c.Middleware == "remember" && chance(t, "expireoutside", 30) {
			// an application that wants idle expiry and remember-me installs both middlewares, expire first:
			// whatever the two do to each other, a logout still has to leave nothing behind
			c.ExpireOutside = true
			if !c.HasSetup("expire") {
				c.Setups = append(c.Setups, "expire")
			}
			c.ExpireS = pick(t, "expire10", 30, 3600)
		}
		for i := range c.Accounts {
			c.Accounts[i].Locked, c.Accounts[i].Unconfirmed = false, false
		}
	},
}

func TestC10(t *testing.T) {
	st("C10").Rule = "world machine prefix reaching logged-in, half-authed, mid-2FA-login, mid-2FA-setup, mid-OAuth2, e-mail-verify and expired session states (reached-state classes are histogrammed), then /logout with each HTTP method under each configured LogoutMethod and whitelist; " +
		"non-trivial = a logout from a state holding >=1 pending/secret key and >=1 whitelisted key; distinct by FNV of the abstract trace"
	runWorldProp(t, "C10", profC10, func() Monitor { return &monC10{} }, func(m *Machine) bool { return m.Flags["nontrivial"] })
}

func init() {
	replayers["world:C10"] = worldReplayer(func() Monitor { return &monC10{} })
}
