package props

import (
	"fmt"
	"strings"
	"testing"
	"time"

	"pgregory.net/rapid"

	"verif/harness"
)

// ---- C04: failed-attempt counting and lockout follow the configured thresholds exactly

type lockModel struct {
	count       int
	last        time.Time // stored-time coordinates (shifted together with the store)
	lockedUntil time.Time
}

type monC04 struct {
	acct map[string]*lockModel
}

func (c *monC04) Init(m *Machine) {
	c.acct = map[string]*lockModel{}
	for pid, u := range m.W.Store.Snapshot().Users {
		c.acct[pid] = &lockModel{count: u.AttemptCount, last: u.LastAttempt, lockedUntil: u.Locked}
	}
}

func (c *monC04) resync(pid string, u harness.User) {
	c.acct[pid] = &lockModel{count: u.AttemptCount, last: u.LastAttempt, lockedUntil: u.Locked}
}

// c04Event classifies the request from ground truth: which account it concerns
// and whether it is an authentication failure, a correct credential, or neither.
func c04Event(m *Machine, s *Step) (pid string, ev string) {
	op, r := s.Op, s.Resp
	switch op.K {
	case "login":
		u, ok := s.Pre.Users[s.Pid]
		if !ok {
			return "", ""
		}
		if bcryptOK(u.Password, s.Secret) {
			return s.Pid, "correct"
		}
		return s.Pid, "fail"
	case "otplogin":
		u, ok := s.Pre.Users[s.Pid]
		if !ok {
			return "", ""
		}
		if otpInList(u.OTPs, s.Secret) {
			return s.Pid, "correct"
		}
		return s.Pid, "fail"
	case "totpvalidate", "smsvalidate":
		kind := "totp"
		if op.K == "smsvalidate" {
			kind = "sms"
		}
		who := r.UIDBefore()
		if who == "" {
			who = r.SessBefore[pendingKeys[kind]]
		}
		u, ok := s.Pre.Users[who]
		if !ok {
			return "", ""
		}
		if kind == "totp" {
			if u.TOTPSecretKey == "" {
				return "", ""
			}
			if op.F {
				if s.Secret == "" {
					// empty recovery_code field: the handler falls through to the code field, which is empty too
					return who, "fail"
				}
				if recoveryInList(u.RecoveryCodes, s.Secret) {
					return who, "correct2"
				}
				return who, "fail"
			}
			if m.C.Cfg.OneTimeTOTP && u.TOTPLastCode == strings.TrimSpace(s.Secret) {
				m.flag("totp-replay")
				return who, "fail" // a repeated code is refused whatever its value: an authentication failure like any other
			}
			a, z := totpValidAt(s.Secret, u.TOTPSecretKey, r.T0, r.T1)
			if a != z {
				return who, "inconclusive"
			}
			if a {
				return who, "correct2"
			}
			return who, "fail"
		}
		// sms
		if s.Secret == "" {
			return "", "" // (re)send path, or no-op
		}
		if op.F {
			if recoveryInList(u.RecoveryCodes, s.Secret) {
				return who, "correct2"
			}
			return who, "fail"
		}
		code, has := r.SessBefore["sms_secret"]
		if !has || code == "" {
			return "", "" // handler errors out before judging the code
		}
		if code == s.Secret && r.SessBefore["sms_secret_number"] == u.SMSPhone {
			return who, "correct2"
		}
		return who, "fail"
	}
	return "", ""
}

func (c *monC04) After(m *Machine, s *Step) *Violation {
	cfg := m.C.Cfg
	W := time.Duration(cfg.LockWindowS) * time.Second
	D := time.Duration(cfg.LockDurS) * time.Second
	op := s.Op
	switch op.K {
	case "advance":
		d := time.Duration(op.N) * time.Second
		for _, lm := range c.acct {
			if !lm.last.IsZero() {
				lm.last = lm.last.Add(-d)
			}
			if !lm.lockedUntil.IsZero() {
				lm.lockedUntil = lm.lockedUntil.Add(-d)
			}
		}
		return nil
	case "lock", "unlock":
		ka := m.KB.acct(op.A % max(1, len(m.KB.Accts)))
		if ka == nil {
			return nil
		}
		u := s.Post.Users[ka.PID]
		lm := c.acct[ka.PID]
		if lm == nil {
			// an account the history created itself (first OAuth2 login): model it from storage
			c.resync(ka.PID, u)
			lm = c.acct[ka.PID]
		}
		if op.K == "unlock" {
			if u.AttemptCount != 0 || u.Locked.After(time.Now().UTC()) {
				return violation("C04", "unlock-incomplete", "after manual unlock of %q: count=%d locked until %v", ka.PID, u.AttemptCount, u.Locked)
			}
			m.flag("unlock")
		} else if !u.Locked.After(time.Now().UTC()) {
			return violation("C04", "manual-lock-ineffective", "after manual lock of %q it is not locked (locked=%v)", ka.PID, u.Locked)
		}
		lm.count, lm.last, lm.lockedUntil = u.AttemptCount, u.LastAttempt, u.Locked
		if op.K == "unlock" {
			lm.count = 0
		}
		return nil
	}
	if s.Resp == nil {
		return nil
	}
	r := s.Resp
	if op.K == "o2cb" {
		// a completed OAuth2 login passes lock's hook, which stamps the account's last attempt: follow storage for it
		if who := r.UID(); who != "" {
			if post, ok := s.Post.Users[who]; ok {
				c.resync(who, post)
			}
		}
	}
	pid, ev := c04Event(m, s)
	// every account other than the one concerned keeps its lock state
	for p, post := range s.Post.Users {
		if p == pid {
			continue
		}
		pre, ok := s.Pre.Users[p]
		if ok && (pre.AttemptCount != post.AttemptCount || !pre.Locked.Equal(post.Locked)) {
			return violation("C04", "bystander-lock-state-changed:"+op.K, "%s request concerning %q changed lock state of %q: count %d->%d locked %v->%v", op.K, pid, p, pre.AttemptCount, post.AttemptCount, pre.Locked, post.Locked)
		}
	}
	if pid == "" {
		return nil
	}
	lm := c.acct[pid]
	post := s.Post.Users[pid]
	if lm == nil {
		c.resync(pid, post)
		return nil
	}
	if ev == "inconclusive" {
		st("C04").add("inconclusive", 1)
		c.resync(pid, post)
		return nil
	}
	if r.Fired != "" && (r.Rec.HandlerErr != nil || r.Panic != nil) {
		// the failed backend call surfaced as an error: where it hit decides what was
		// written, the model follows storage. (A request that *reports* a clean outcome
		// is judged by the ordinary rules whatever failed inside it.)
		m.flag("fault-surfaced")
		c.resync(pid, post)
		return nil
	}
	t0, t1 := r.T0.UTC(), r.T1.UTC()
	lockedBefore0, lockedBefore1 := lm.lockedUntil.After(t0), lm.lockedUntil.After(t1)
	if lockedBefore0 != lockedBefore1 {
		st("C04").add("inconclusive", 1)
		c.resync(pid, post)
		return nil
	}
	wasLocked := lockedBefore0
	sig := fmt.Sprintf("%s:lockafter=%d", op.K, min(cfg.LockAfter, 2))
	switch ev {
	case "fail":
		p0, p1 := t0.Sub(lm.last) > W, t1.Sub(lm.last) > W
		if p0 != p1 {
			st("C04").add("inconclusive", 1)
			c.resync(pid, post)
			return nil
		}
		if p0 {
			lm.count = 1
			m.flag("failure-after-pause")
		} else {
			lm.count++
			m.flag("failure-in-window")
		}
		trigger := lm.count >= cfg.LockAfter
		if post.AttemptCount != lm.count {
			return violation("C04", "count-mismatch:"+sig, "failure on %q: stored attempt count %d, reference %d (pause>window=%v)", pid, post.AttemptCount, lm.count, p0)
		}
		if post.LastAttempt.Before(t0) || post.LastAttempt.After(t1) {
			return violation("C04", "last-attempt-not-stamped:"+sig, "failure on %q: stored last attempt %v not in [%v,%v]", pid, post.LastAttempt, t0, t1)
		}
		lm.last = post.LastAttempt
		if trigger {
			m.flag("threshold-reached")
			if post.Locked.Before(t0.Add(D)) || post.Locked.After(t1.Add(D)) {
				return violation("C04", "not-locked-at-threshold:"+sig+fmt.Sprintf(":afterpause=%v", p0),
					"failure #%d on %q reaches LockAfter=%d but stored lock deadline is %v, want within [%v,%v]", lm.count, pid, cfg.LockAfter, post.Locked, t0.Add(D), t1.Add(D))
			}
			lm.lockedUntil = post.Locked
		} else if !post.Locked.Equal(lm.lockedUntil) {
			return violation("C04", "lock-deadline-moved-below-threshold:"+sig, "failure #%d on %q (below LockAfter=%d) moved the lock deadline %v -> %v", lm.count, pid, cfg.LockAfter, lm.lockedUntil, post.Locked)
		}
		if r.UID() != r.UIDBefore() && r.UID() == pid {
			return violation("C04", "failure-logged-in:"+sig, "failed attempt on %q ended with a session", pid)
		}
	case "correct", "correct2":
		// a correct credential never counts as a failure
		completes := !wasLocked
		if ev == "correct" {
			// password/OTP step of an account with a second factor only parks the login
			pre := s.Pre.Users[pid]
			totpOn, smsOn := factorEnabled(m, pre)
			if totpOn || smsOn {
				completes = false
			}
			got := r.UID() == pid && r.UID() != r.UIDBefore()
			parked := r.SessAfter["totp_pending"] == pid || r.SessAfter["sms_pending"] == pid
			accepted := got || parked
			if r.UIDBefore() == pid {
				// re-login of the user already in the session: judged by the redirect
				accepted = r.Location != "/notok/lock"
			}
			if wasLocked && accepted && r.Location != "/notok/lock" {
				return violation("C04", "accepted-while-locked:"+sig, "correct credential for locked %q was accepted (uid=%q pending=%v)", pid, r.UID(), parked)
			}
			if !wasLocked && (!accepted || r.Location == "/notok/lock") {
				return violation("C04", "rejected-while-unlocked:"+sig, "correct credential for unlocked %q was refused (status %d location %q)", pid, r.Status, r.Location)
			}
			if wasLocked {
				m.flag("correct-while-locked")
			}
		} else {
			if wasLocked && r.UID() == pid && r.UIDBefore() != pid {
				return violation("C04", "accepted-while-locked:"+sig, "correct 2FA code for locked %q completed the login", pid)
			}
			if !wasLocked && r.UID() != pid {
				return violation("C04", "rejected-while-unlocked:"+sig, "correct 2FA code for unlocked %q did not complete the login (status %d location %q err %v)", pid, r.Status, r.Location, r.Rec.HandlerErr)
			}
		}
		if completes {
			lm.count = 0
			m.flag("completed-login-resets")
		}
		if post.AttemptCount != lm.count {
			return violation("C04", "count-mismatch-on-correct:"+sig, "correct credential for %q (locked=%v completes=%v): stored attempt count %d, reference %d", pid, wasLocked, completes, post.AttemptCount, lm.count)
		}
		if !post.Locked.Equal(lm.lockedUntil) {
			return violation("C04", "lock-deadline-moved-on-correct:"+sig, "correct credential for %q moved the lock deadline %v -> %v", pid, lm.lockedUntil, post.Locked)
		}
		if post.LastAttempt.Before(t0) || post.LastAttempt.After(t1) {
			return violation("C04", "last-attempt-not-stamped-on-correct:"+sig, "correct credential for %q: stored last attempt %v not in [%v,%v]", pid, post.LastAttempt, t0, t1)
		}
		lm.last = post.LastAttempt
	}
	return nil
}

func min(a, b int) int {
	if a < b {
		return a
	}
	return b
}

func (c *monC04) End(m *Machine) *Violation { return nil }

var kindsC04 = []wk{
	{"login", 40}, {"otplogin", 10}, {"totpvalidate", 10}, {"smsvalidate", 10}, {"advance", 22}, {"lock", 3}, {"unlock", 4},
	{"newsess", 4}, {"logout", 2}, {"smsresend", 2}, {"snip:2fa", 6}, {"snip:oauthdeny", 5}, {"snip:oauth", 2},
}

var profC04 = profile{
	must: []string{"auth", "lock"}, may: []string{"otp", "logout", "oauth2"},
	setups: []string{"totp", "sms", "recovery"}, kinds: kindsC04, minOps: 16, maxOps: 40,
	accts: [2]int{1, 2}, browsers: [2]int{1, 2}, middlewares: []string{""},
	// the counter is kept by storage writes: a login step whose write fails must not be reported as a clean outcome
	faultPct: 8, faultOps: []string{"login", "otplogin", "totpvalidate", "smsvalidate"},
	badQuery: 10, // JSON mode only: the attempt is judged as usual whatever the query string looks like
	tweak: func(t *rapid.T, c *harness.Config) {
		c.LockAfter = rapid.IntRange(1, 6).Draw(t, "lockafter4")
		c.LockWindowS = pick(t, "win", 20, 60, 300, 3600, 86400)
		c.LockDurS = pick(t, "dur", 5, 30, 600, 43200, 172800, 7889400000)
		c.OneTimeTOTP = chance(t, "onetime4", 50)
		c.EmailAuth = false
		c.Middleware = ""
		// an application listener on the failed-attempt event that answers the request itself (registered through the public
		// Events API ahead of the modules): the attempt is counted all the same
		c.AppAuthFailHook = chance(t, "appauthfail", 25)
		for i := range c.Accounts {
			a := &c.Accounts[i]
			a.Unconfirmed = false
			a.Locked = chance(t, "seedlocked", 10)
			if i == 0 && chance(t, "oddhash", 20) {
				// a stored password bcrypt cannot even parse: every password typed against it is a failed attempt
				a.HashKind = pick(t, "hashkind", "empty", "md5", "sha256crypt", "trunc")
			}
			if i == 1 {
				if c.HasSetup("totp") {
					a.TOTP = true
				} else if c.HasSetup("sms") {
					a.Phone = "+15550001"
				}
				if a.TOTP || a.Phone != "" {
					a.Recovery = 2
				}
			}
		}
	},
}

// c04Gaps places gaps on either side of the window and the duration (>= 2 s away).
func c04Gaps(c harness.Config) []int {
	W, D := c.LockWindowS, c.LockDurS
	g := []int{0, 1, 3}
	for _, x := range []int{W, D, W + D} {
		if x-3 > 0 {
			g = append(g, x-3)
		}
		if x/2 > 0 {
			g = append(g, x/2)
		}
		g = append(g, x+3, x+x/10+5)
	}
	g = append(g, 10*D+7)
	return g
}

func TestC04(t *testing.T) {
	s := st("C04")
	s.Rule = "lock machine: LockAfter 1-6, windows 20 s-24 h, durations 5 s-48 h, 1-2 accounts (plain and 2FA); ops: right/wrong password, OTP and 2FA code, manual lock/unlock, gaps on either side of window/duration; " +
		"oracle: reference automaton written from the statement (interval-time semantics); non-trivial = the threshold is reached at least once and the case contains a failure after a pause and one inside the window; distinct by FNV of the abstract trace"
	p := profC04
	rapid.Check(t, func(rt *rapid.T) {
		cfg := genConfig(rt, p)
		e := genEnv{cfg: cfg, nAcct: len(cfg.Accounts), nBrows: cfg.Browsers}
		ops := genOps(rt, p, e)
		decorateFaults(rt, p, ops)
		decorateQuery(rt, p, cfg, ops)
		gaps := c04Gaps(cfg)
		for i := range ops {
			if ops[i].K == "advance" {
				ops[i].N = gaps[ops[i].N%len(gaps)]
			}
		}
		c := Case{Cfg: cfg, Ops: ops}
		m, v, err := runCase(c, &monC04{})
		if err != nil {
			rt.Fatalf("world construction failed: %v", err)
		}
		var classes []string
		for f := range m.Flags {
			classes = append(classes, f)
		}
		classes = append(classes, fmt.Sprintf("lockafter=%d", cfg.LockAfter))
		s.add("steps", m.NStep)
		s.add("skipped", m.NSkip)
		nt := m.Flags["threshold-reached"] && m.Flags["failure-after-pause"] && m.Flags["failure-in-window"]
		s.record(nt, m.Trace.h, classes, func() interface{} { return c })
		handle(rt, v, "world:C04", c)
	})
}

func init() {
	replayers["world:C04"] = worldReplayer(func() Monitor { return &monC04{} })
}
