package props

import (
	"fmt"
	"sort"
	"strings"
	"testing"
	"time"

	"github.com/volatiletech/authboss/v3"
	"pgregory.net/rapid"

	"verif/harness"
)

// ---- C09: an idle session expires and is fully hidden from everything downstream

type monC09 struct {
	last []time.Time // per browser: model time of last activity (stored-time coordinates)
	has  []bool
}

func (c *monC09) Init(m *Machine) {
	c.last = make([]time.Time, len(m.W.Jars))
	c.has = make([]bool, len(m.W.Jars))
}

// sync follows the stamp the client now holds: the model's activity time moves
// only when the stamp was (re)written (a handler error under the silent error
// handler writes nothing, so the old stamp stays in force).
func (c *monC09) sync(b int, r *harness.Resp, before string) {
	na, ok := r.SessAfter[authboss.SessionLastAction]
	switch {
	case !ok:
		c.has[b] = false
	case na != before || !c.has[b]:
		c.last[b], c.has[b] = r.T1, true
	}
}

func inWhitelist(cfg harness.Config, k string) bool {
	for _, w := range cfg.Whitelist {
		if w == k {
			return true
		}
	}
	return false
}

func keysOf(m map[string]string) []string {
	ks := make([]string, 0, len(m))
	for k := range m {
		ks = append(ks, k)
	}
	sort.Strings(ks)
	return ks
}

func (c *monC09) After(m *Machine, s *Step) *Violation {
	op := s.Op
	cfg := m.C.Cfg
	E := time.Duration(cfg.ExpireS) * time.Second
	if op.K == "advance" {
		d := time.Duration(op.N) * time.Second
		for i := range c.last {
			if c.has[i] {
				c.last[i] = c.last[i].Add(-d)
			}
		}
		return nil
	}
	if op.K == "newsess" {
		c.has[op.B%len(c.has)] = false
		return nil
	}
	if s.Resp == nil {
		return nil
	}
	r := s.Resp
	b := op.B % len(m.W.Jars)
	passive := op.K == "visit" || op.K == "set"
	if op.K == "raw" && r.Rec.HandlerErr != nil && r.Status >= 500 {
		// a request the library could not even read (malformed body), answered by the application's error handler with a
		// 500: the handler queued nothing of its own, so what the expiry middleware decided must reach the client all the same
		passive = true
		m.flag("error-answer-on-session")
	}
	_, hadUser := r.SessBefore[authboss.SessionKey]
	laStr, hadStamp := r.SessBefore[authboss.SessionLastAction]

	if hadUser {
		verdict := "alive"
		if hadStamp && c.has[b] {
			idle0, idle1 := r.T0.Sub(c.last[b]), r.T1.Sub(c.last[b])
			// The stamp is the stamping request's clock cut to whole seconds, and the model's
			// activity time is that request's end: the real deadline lies in (last-1s-d, last] + E
			// (d = duration of that request). So a request starting after last+E is certainly
			// late, one ending before last+E-1s-d certainly in time.
			switch {
			case idle0 > E+5*time.Millisecond:
				verdict = "expired"
			case idle1 < E-1500*time.Millisecond:
				verdict = "alive"
			default:
				verdict = "inconclusive"
			}
		} else if hadStamp {
			verdict = "inconclusive" // a stamp the model did not see being written
		}
		switch verdict {
		case "inconclusive":
			st("C09").add("inconclusive", 1)
			c.sync(b, r, laStr)
			return nil
		case "expired":
			m.flag("expired")
			if r.Rec.ProbeRan {
				if r.Rec.ProbeUID != "" || r.Rec.ProbeUserOK {
					return violation("C09", "expired-session-still-authenticated", "request %v after the idle limit %v: downstream handler saw current user %q", r.T0.Sub(c.last[b]).Round(time.Second), E, r.Rec.ProbeUID)
				}
				for k, v := range r.Rec.ProbeSession {
					if !inWhitelist(cfg, k) {
						return violation("C09", "expired-session-leaks-key:"+k, "after expiry the downstream handler could read non-whitelisted session key %q=%q", k, v)
					}
				}
				for _, k := range cfg.Whitelist {
					if want, ok := r.SessBefore[k]; ok && r.Rec.ProbeSession[k] != want {
						return violation("C09", "expired-session-hides-whitelisted-key", "after expiry the whitelisted key %q (value %q) was not visible downstream (saw %q)", k, want, r.Rec.ProbeSession[k])
					}
				}
			}
			if r.Rec.ProbeRan && r.Rec.ProbeName != "open" && r.Rec.ProbeName != "" {
				return violation("C09", "expired-session-passed-protection", "after expiry a protected probe (%s) ran", r.Rec.ProbeName)
			}
			if passive && r.Wrote {
				for k := range r.SessAfter {
					if inWhitelist(cfg, k) || k == authboss.FlashErrorKey || k == authboss.FlashSuccessKey {
						continue
					}
					if op.K == "set" && k == op.S {
						continue
					}
					return violation("C09", "expired-session-key-survives:"+k, "the response to an expired session left non-whitelisted key %q in the client's session (keys %v)", k, keysOf(r.SessAfter))
				}
				for _, k := range cfg.Whitelist {
					if want, ok := r.SessBefore[k]; ok && r.SessAfter[k] != want && !(op.K == "set" && k == op.S) {
						return violation("C09", "expiry-dropped-whitelisted-key", "expiry deleted or changed the whitelisted key %q (%q -> %q)", k, want, r.SessAfter[k])
					}
				}
				if len(cfg.Whitelist) > 0 {
					m.flag("expired-with-whitelist")
				}
			}
			// (a login request over the expired session still has to start a new clock: checked below)
		case "alive":
			m.flag("alive")
			if r.Rec.ProbeRan && r.Rec.ProbeUID != r.SessBefore[authboss.SessionKey] {
				return violation("C09", "live-session-not-authenticated", "request %v after last activity (limit %v): downstream handler saw user %q, session user %q", r.T1.Sub(c.last[b]).Round(time.Second), E, r.Rec.ProbeUID, r.SessBefore[authboss.SessionKey])
			}
			if passive && r.Wrote {
				if _, still := r.SessAfter[authboss.SessionKey]; !still {
					return violation("C09", "live-session-dropped", "a request inside the idle limit lost the session user")
				}
				na, ok := r.SessAfter[authboss.SessionLastAction]
				t, err := time.Parse(time.RFC3339, na)
				if !ok || err != nil || t.Before(r.T0.Add(-1100*time.Millisecond)) || t.After(r.T1.Add(time.Second)) {
					return violation("C09", "deadline-not-pushed-forward", "a request inside the idle limit did not refresh last_action (before %q after %q)", laStr, na)
				}
			}
		}
	}
	// login starts the idle clock (logins that fire the auth event) - also a login over a session
	// that already names the same user (for instance an expired one): judged by the success
	// answer, not by a change of identity
	relogin := false
	if r.UID() != "" && r.UID() == r.UIDBefore() && r.Fired == "" && r.Rec.HandlerErr == nil &&
		(strings.HasPrefix(r.Location, "/ok/login") || (op.S2 != "" && r.Location == op.S2)) {
		if ok, inc := credTruth(m, s, r.UID()); ok && !inc {
			relogin = true
			m.flag("relogin-same-user")
		}
	}
	if r.UID() != "" && (r.UID() != r.UIDBefore() || relogin) {
		switch op.K {
		case "login", "otplogin", "totpvalidate", "smsvalidate", "recend":
			na, ok := r.SessAfter[authboss.SessionLastAction]
			t, err := time.Parse(time.RFC3339, na)
			if r.Fired != "" {
				// a failed backend call cut the request short: the next request's
				// middleware has to start the clock (checked there)
				m.flag("login-cut-short-by-fault")
			} else if !ok || err != nil || t.Before(r.T0.Add(-1100*time.Millisecond)) || t.After(r.T1.Add(time.Second)) {
				return violation("C09", "login-did-not-start-idle-clock:"+op.K, "%s login left last_action=%q (ok=%v)", op.K, na, ok)
			}
			m.flag("login-stamped")
		}
	}
	c.sync(b, r, laStr)
	if len(r.SessAfter) > 3 {
		m.flag("extra-session-keys")
	}
	return nil
}

func (c *monC09) End(m *Machine) *Violation { return nil }

var kindsC09 = []wk{
	{"login", 20}, {"otplogin", 4}, {"visit", 26}, {"set", 8}, {"advance", 22}, {"o2start", 3}, {"o2cb", 3}, {"totpvalidate", 4}, {"smsvalidate", 4},
	{"snip:2fa", 6}, {"snip:recover", 3}, {"snip:oauth", 3}, {"snip:otp", 2}, {"logout", 2}, {"newsess", 2}, {"register", 2}, {"totpsetup", 1}, {"smssetup", 1}, {"snip:idle", 22}, {"raw", 7},
}

var profC09 = profile{
	must: []string{"auth"}, may: []string{"otp", "recover", "register", "oauth2", "logout", "lock", "remember"},
	// a backend fault in a login request can stop the hook chain between the
	// session write and the idle-clock stamp (lock's and remember's hooks save)
	faultPct: 12, faultOps: []string{"login", "otplogin", "totpvalidate", "smsvalidate", "recend"},
	mustSetups: []string{"expire"}, setups: []string{"totp", "sms"}, kinds: kindsC09, minOps: 16, maxOps: 38,
	accts: [2]int{2, 3}, browsers: [2]int{1, 2}, middlewares: []string{"expire"},
	tweak: func(t *rapid.T, c *harness.Config) {
		c.ExpireS = pick(t, "expire9", 5, 20, 60, 3600, 86400)
		c.EmailAuth = false
		c.RecoverLogin = true
		for i := range c.Accounts {
			c.Accounts[i].Locked, c.Accounts[i].Unconfirmed = false, false
		}
	},
}

func TestC09(t *testing.T) {
	s := st("C09")
	s.Rule = "expire machine: ExpireAfter 5 s-24 h, whitelist a generated subset of the application keys; logins on every path that fires the auth event, application keys, pending 2FA / OAuth2 state, visits, gaps on either side of ExpireAfter (ExpireAfter-2 s counts as inside, ExpireAfter and ExpireAfter+1 s as outside); " +
		"oracle: model last-activity per browser; what the downstream probe can read and what the response leaves in the client's session; non-trivial = the case has >=1 surviving and >=1 expiring gap; distinct by FNV of the abstract trace"
	p := profC09
	rapid.Check(t, func(rt *rapid.T) {
		cfg := genConfig(rt, p)
		e := genEnv{cfg: cfg, nAcct: len(cfg.Accounts), nBrows: cfg.Browsers}
		ops := genOps(rt, p, e)
		for i := range ops {
			if contains(p.faultOps, ops[i].K) && chance(rt, "fault9", p.faultPct) {
				ops[i].FA = pick(rt, "faultat9", 1, 2, 2, 3, 3, 4, 4, 5, 6)
				ops[i].FK = "generic"
			}
		}
		E := cfg.ExpireS
		gaps := []int{0, 1, E / 2, E - 3, E - 2, E, E + 1, E + 3, E + E/4 + 3, 3 * E}
		for i := range ops {
			switch ops[i].K {
			case "advance":
				g := gaps[ops[i].N%len(gaps)]
				if g < 0 {
					g = 0
				}
				ops[i].N = g
			case "visit":
				if ops[i].S == "/p/lock" || ops[i].S == "/p/confirm" {
					ops[i].S = "/open"
				}
			}
		}
		c := Case{Cfg: cfg, Ops: ops}
		m, v, err := runCase(c, &monC09{})
		if err != nil {
			rt.Fatalf("world construction failed: %v", err)
		}
		var classes []string
		for f := range m.Flags {
			classes = append(classes, f)
		}
		classes = append(classes, fmt.Sprintf("whitelist=%d", len(cfg.Whitelist)))
		s.add("steps", m.NStep)
		s.add("skipped", m.NSkip)
		nt := m.Flags["expired"] && m.Flags["alive"]
		s.record(nt, m.Trace.h, classes, func() interface{} { return c })
		handle(rt, v, "world:C09", c)
	})
}

func init() {
	replayers["world:C09"] = worldReplayer(func() Monitor { return &monC09{} })
}
