#!/bin/bash
# tools/seedverify2.sh <src worktree e.g. /tmp/seed2-C05> <prop> [demo-rel-path] [go test args...]
# (demo path / args default to lines 1 and 2 of <src>/out/RUN.txt). Result lines go to .work/seedverify-<base>.txt
set -u
srcwt=$1; id=$2; shift 2
export GOFLAGS=-mod=mod GOPROXY=off GOSUMDB=off GOTOOLCHAIN=local
src=$srcwt/out
if [ $# -ge 1 ]; then demo=$1; shift; args="$*"; else demo=$(sed -n 1p "$src/RUN.txt"); args=$(sed -n 2p "$src/RUN.txt"); fi
base=$(basename "$srcwt")
d=$(mktemp -d /tmp/sv.XXXXXX)
git -C /repo worktree add -q --detach "$d" HEAD || exit 3
cleanup() { git -C /repo worktree remove --force "$d" 2>/dev/null; rm -rf "$d"; git -C /repo worktree prune; }
trap cleanup EXIT
here=$(cd "$(dirname "$0")/.." && pwd)
res="$here/.work/seedverify-$base.txt"; : > "$res"
log() { echo "$@" | tee -a "$res"; }
log "demo=$demo args=$args"
git -C "$d" apply "$src/patch.diff" || { log "PATCH-DOES-NOT-APPLY"; exit 3; }
log "files changed: $(git -C "$d" diff --stat | tail -1)"
(cd "$d" && go build ./... ) || { log "BUILD-FAILS"; exit 3; }
suite=$(cd "$d" && go test -vet=off -count=1 ./... 2>&1 | grep -Ev '^ok|no test files')
if [ -n "$suite" ]; then log "SUITE-FAILS-WITH-CHANGE: $suite"; else log "suite passes with change"; fi
mkdir -p "$d/$(dirname "$demo")"; cp "$srcwt/$demo" "$d/$demo"
(cd "$d" && go test -vet=off -count=1 $args >/tmp/sv-demo-$base.txt 2>&1); rc1=$?
log "demo with change: exit=$rc1 (want non-zero)"; grep -E "^\s+\S+_test.go:[0-9]+:|^--- FAIL|DATA RACE" /tmp/sv-demo-$base.txt | head -4 >> "$res"
git -C "$d" apply -R "$src/patch.diff"
(cd "$d" && go test -vet=off -count=1 $args >/tmp/sv-demo-$base.txt 2>&1); rc2=$?
log "demo without change: exit=$rc2 (want 0)"
git -C "$d" apply "$src/patch.diff"; rm -f "$d/$demo"; rm -f /tmp/sv-demo-$base.txt
mkdir -p "$here/.work/mut"
out=$(VERIF_REPO="$d" VERIF_EVIDENCE_DIR="$here/.work/mut/evidence" VERIF_FOUND_DIR="$here/.work/mut/found" "$here/check" "$id" quick 2>&1); rc3=$?
log "check $id quick against the change: exit=$rc3 (1 = detected)"
echo "$out" | grep -o "signature=[^ ]*" | sort | uniq -c | sort -rn | head -3 | tee -a "$res"
