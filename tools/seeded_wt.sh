#!/bin/bash
# tools/seeded_wt.sh [ids...] - like seeded_run.sh but against scratch worktrees (safe to run beside other work)
cd "$(dirname "$0")/.."
ids=${@:-$(ls seeded | grep -v go.mod)}
for id in $ids; do
  prop=${id%%-*}
  # a seed may name the check that is expected to catch it (meta.json "check_with"), e.g. a schedule-dependent change filed under a sequential property
  cw=$(python3 -c "import json,sys; print(json.load(open('seeded/$id/meta.json')).get('check_with',''))" 2>/dev/null)
  [ -n "$cw" ] && prop=$cw
  out=$(MUT_TAIL=40 tools/mutcheck.sh $prop seeded/$id/patch.diff 2>&1)
  rc=$(echo "$out" | grep -o "exit=[0-9]*" | tail -1)
  sig=$(echo "$out" | grep -o 'signature=[^ ]*' | sort | uniq -c | sort -rn | head -2 | tr '\n' ' ')
  echo "$out" | grep -q "PATCH-DOES-NOT-APPLY" && rc="PATCH-DOES-NOT-APPLY (re-create the patch on the current tree)"
  echo "$id: $rc (exit=1 = detected) $sig"
done
