#!/bin/bash
# usage: tools/mutcheck.sh <prop> <patch> [tier] [--suite]
# Applies a patch to a scratch worktree of /repo, runs the check against it, removes the worktree.
# Evidence and replays of the mutant run go to .work/mut/, never into evidence/ or replays/.
set -u
prop=$1; patch=$(realpath "$2"); tier=${3:-quick}
export GOFLAGS=-mod=mod GOPROXY=off GOSUMDB=off GOTOOLCHAIN=local
d=$(mktemp -d /tmp/mut.XXXXXX)
git -C /repo worktree add -q --detach "$d" HEAD || exit 3
cleanup() { git -C /repo worktree remove --force "$d" 2>/dev/null; rm -rf "$d"; git -C /repo worktree prune; }
trap cleanup EXIT
if ! git -C "$d" apply "$patch"; then echo "PATCH-DOES-NOT-APPLY"; exit 3; fi
if [ "${4:-}" = "--suite" ]; then
  (cd "$d" && go build ./... && go test -count=1 ./... 2>&1 | grep -Ev '^ok|no test files' | head -20)
fi
here=$(cd "$(dirname "$0")/.." && pwd)
mkdir -p "$here/.work/mut"
VERIF_REPO="$d" VERIF_EVIDENCE_DIR="$here/.work/mut/evidence" VERIF_FOUND_DIR="$here/.work/mut/found" "$here/check" "$prop" "$tier" 2>&1 | tail -${MUT_TAIL:-6}
rc=${PIPESTATUS[0]}
echo "mutant $(basename "$patch"): exit=$rc (1 = killed)"
exit $rc
