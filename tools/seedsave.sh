#!/bin/bash
# tools/seedsave.sh <Cxx> <demo-relative-path> "<needs>" "<detected-by>" -- copies a verified seeded change into /verif/seeded/<id>/
id=$1; demo=$2; needs=$3; det=$4
here=$(cd "$(dirname "$0")/.." && pwd)
dst="$here/seeded/$id"; mkdir -p "$dst"
cp /tmp/seed-$id/out/patch.diff "$dst/patch.diff"
cp "/tmp/seed-$id/$demo" "$dst/$(basename "$demo")"
cp /tmp/seed-$id/out/NOTE.md "$dst/NOTE.md" 2>/dev/null
python3 - "$id" "$demo" "$needs" "$det" "$here" <<'PY'
import json, sys, os
id, demo, needs, det, here = sys.argv[1:6]
ran = open(os.path.join(here, ".work", "seedverify-%s.txt" % id)).read().strip().splitlines()
prop = [json.loads(l) for l in open(os.path.join(here, "properties.jsonl")) if json.loads(l)["id"] == id][0]
meta = {"breaks_property": id, "property_title": prop["title"], "origin": "independent sub-agent given only the property text and a scratch worktree of /repo",
        "needs_to_manifest": needs, "demo": {"file": os.path.basename(demo), "original_path": demo},
        "confirmed_in_scratch_worktree": ran, "detected_by": det,
        "how_to_run_the_check_against_it": "git -C /repo apply /verif/seeded/%s/patch.diff && ./check %s quick ; git -C /repo checkout -- ." % (id, id)}
json.dump(meta, open(os.path.join(here, "seeded", id, "meta.json"), "w"), indent=1)
print("saved seeded/%s" % id)
PY
