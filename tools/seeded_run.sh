#!/bin/bash
# tools/seeded_run.sh [ids...] - applies each /verif/seeded/<id>/patch.diff to /repo itself, runs that property's
# quick check (evidence and replays of these runs go to .work/mut/, never to evidence/), and undoes the patch straight afterwards.
here=$(cd "$(dirname "$0")/.." && pwd); cd "$here"
ids=${@:-$(ls seeded)}
if [ -n "$(git -C /repo status --porcelain)" ]; then echo "/repo is not clean, refusing"; exit 3; fi
for id in $ids; do
  prop=${id%%-*}
  trap 'git -C /repo checkout -- . ; git -C /repo clean -fdq' EXIT
  if ! git -C /repo apply "$here/seeded/$id/patch.diff"; then echo "$id: PATCH-DOES-NOT-APPLY"; continue; fi
  out=$(VERIF_EVIDENCE_DIR="$here/.work/mut/evidence" VERIF_FOUND_DIR="$here/.work/mut/found" ./check "$prop" quick 2>&1); rc=$?
  git -C /repo checkout -- .
  sig=$(echo "$out" | grep -o 'signature=[^ ]*' | sort | uniq -c | sort -rn | head -2 | tr '\n' ' ')
  echo "$id: check $prop exit=$rc (1 = detected) $sig"
done
trap - EXIT
git -C /repo status --porcelain | head -3
