#!/bin/bash
# tools/mutall.sh [props...] - runs every hand-made mutant of the given (default: all) properties; prints one line each
cd "$(dirname "$0")/.."
props=${@:-$(ls mutants)}
for p in $props; do for m in mutants/$p/*.patch; do MUT_TAIL=3 tools/mutcheck.sh $p $m 2>&1 | grep -E "^mutant" | sed "s/^/$p /"; done; done
