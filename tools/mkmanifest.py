#!/usr/bin/env python3
"""Regenerates /verif/MANIFEST.json from the table below (kept next to the driver's table in ./check)."""
import json, os, sys
ROOT = os.path.dirname(os.path.dirname(os.path.abspath(__file__)))

TRUST = ("Trusted base: Go toolchain and standard library, golang.org/x/crypto/bcrypt, pquerna/otp, golang.org/x/oauth2, rapid v1.3.0; "
         "the harness World (/verif/harness) standing in for the application. Held = no counterexample among the generated cases.")

C = {}
def claim(pid, technique, text, note, level="exploration", engine="world-machine"):
    C[pid] = dict(technique=technique, text=text, note=note, level=level, engine=engine)

claim("C11", "property-based testing of generated handler programs against recording stores (rapid) + native fuzz on byte-decoded programs",
      "Generated handler programs (put/del/delall on both stores, header writes, WriteHeader, Write, reads, 0-3 nested wrappers) run through the real "
      "LoadClientStateMiddleware/ClientStateResponseWriter; recording stores and a recording base writer share one sequence counter and the expected "
      "deliveries are derived from the program alone. Exploration: ~100k programs per quick run, millions plus coverage-guided fuzzing in thorough.",
      TRUST + " WriteState never fails (the error path is not part of the statement).", engine="handler-program")

claim("C08", "exhaustive enumeration of the finite requirement/session/mode/storage table x rapid-generated paths and queries, against a reference decision function and a redirect round-trip oracle; native fuzz on path/query",
      "All 6912 rows of session-user x halfauth x twofactor x requirement-bits x refusal x mountPathed x Mount x storage-outcome x form/JSON are run for every generated "
      "(escaped path, raw query) pair, through Middleware2/MountedMiddleware2 and the deprecated boolean constructors. Oracle: a reference decision written from the statement "
      "(run / exact refusal / 500) and a round trip on the redirect: parse Location, decode redir, parse it as a URL reference, compare path and raw query with the request. "
      "The finite part is exhaustive; strings are explored (hundreds per quick run, tens of thousands plus fuzzing in thorough).",
      TRUST + " net/url parsing is the arbiter of where a redir value 'returns to'.", engine="table+strings")

WM = "world machine: rapid-generated configurations and op histories interpreted against a full application World; "
claim("C01", "model-based property testing (rapid state-machine style op histories) with an independent credential-validity oracle",
      WM + "after every request the browser's session user is diffed; a new identity must be justified by a credential that an independent recomputation "
      "(bcrypt / sha512 / base64 from the standard libraries against the pre-request store, plus what the harness was shown: mailed tokens, issued cookies, provider answers) "
      "finds valid for exactly that user; every other request must leave the identity untouched, and no request may touch another browser's session. "
      "Secrets come from near-miss pools (other account's secret, stale, stored value replayed, mutated). Exploration: ~7k histories quick, ~200k thorough.",
      TRUST + " Credential validity is recomputed from the pre-request store; a defect that corrupts stored credentials at issue time is the subject of C05/C06/C07/C12/C19, not of this check.")

claim("C02", "model-based property testing of adversarial 2FA histories (rapid) with ground truth from the SMS outbox / TOTP reference implementation",
      WM + "every case has >=2 accounts holding TOTP/SMS factors plus adversary accounts with their own phones; histories concentrate on logins, code requests, validations and time gaps around the resend limit. "
      "Oracle: a password/OTP/recover-login response never sets the session user to a 2FA account; a validate request does so only if the presented code is valid for that account's own factor "
      "(TOTP reference check on its stored secret; latest unconsumed code the outbox shows was sent to its registered number for this browser; one of its unused recovery codes).",
      TRUST + " Flows the statement does not list (remember re-auth, OAuth2, registration) are outside this monitor.")

claim("C03", "model-based property testing over module load orders and lock/confirm states (rapid) with the pre-request store as ground truth",
      WM + "lock and/or confirm are inserted at a generated position of the load order (event-handler order follows it); accounts start locked/unlocked, confirmed/unconfirmed; histories mix correct and "
      "incorrect attempts on password, OTP, OAuth2, recover-login and both 2FA validate steps with manual lock/unlock, re-started confirmation and lock expiry. Oracle: a login flow that ends with user U in the "
      "session implies U was not locked / was confirmed in storage before the request; a probe behind lock.Middleware / confirm.Middleware ran only for an unlocked / confirmed session user.",
      TRUST)

claim("C04", "model-based property testing against an independent reference automaton (rapid), virtual time by ageing stored instants",
      WM + "lock machine: LockAfter 1-6, windows 20 s-24 h, durations 5 s-48 h; right/wrong password, OTP and 2FA code, manual lock/unlock, gaps on either side of LockWindow/LockDuration. "
      "Oracle: a reference automaton written from the statement (count restarts after a pause or a completed login, lock when count reaches LockAfter for LockDuration from the triggering failure, "
      "correct credentials never count, unlock clears both); after every request the stored count, lock deadline and last-attempt stamp and the accept/refuse outcome must equal the model (interval-time semantics).",
      TRUST + " Behaviour exactly at a threshold instant (< vs <=) is out of scope.")

claim("C05", "model-based property testing of token histories (rapid) with a byte-level oracle (decoded bytes == outstanding token) + native fuzz on token strings",
      WM + "token machine over 2-3 accounts: issue / re-issue / use of confirm and recover tokens; candidates: exact, alternative base64 spellings, every single-bit flip, length edits, "
      "selector-of-A + verifier-of-B splices, stored selector/verifier strings and their bytes re-encoded, used, superseded, expired, random. Oracle: accept iff the stdlib-decoded bytes equal the model's "
      "outstanding (latest issued, unused, unexpired) token of some account - then exactly that account is confirmed / gets the new password and its selector+verifier are cleared; otherwise every user record "
      "is byte-equal before and after; a final sweep submits every genuine outstanding token, which must still work.",
      TRUST)

claim("C07", "model-based property testing of remember-cookie histories (rapid) against a model set of live (pid, cookie) pairs + native fuzz on cookie bytes",
      WM + "remember machine: PIDs containing ';', ';;', non-ASCII and non-UTF-8 bytes, very long PIDs and the library-built OAuth2 PIDs (through real OAuth2 logins with rm); ops: login with rm absent/false/true, new session, visits, "
      "cookie theft between browsers, replay of old cookies, arbitrary cookie bytes, logout, password reset. Oracle: model set of live pairs with rotate-once semantics: a live cookie re-authenticates exactly its user, "
      "marks the session half-authed (also for the presenting request: no full-auth route is passed), is replaced by a fresh cookie and dies in storage; anything else authenticates nobody and is deleted; cookies appear only when asked for.",
      TRUST)

claim("C06", "model-based property testing of password-change histories (rapid) with a model password per account and bcrypt-equivalence classes",
      WM + "password-change machine: recover start/end and programmatic UpdatePassword with old/new pairs that are equal, one byte apart, prefixes, 71/72/73/76 bytes, bcrypt-equivalent, NUL-containing, non-ASCII; "
      "up to 4 browsers holding remember cookies; login-after-recovery on/off; remember loaded or not. Oracle: after an authorised change the stored value is a salted bcrypt hash verifying the new and not the old password, "
      "the token is spent, the account's server-side remember set is empty, every other account and its tokens are untouched; every later /login outcome must equal the model password.",
      TRUST)

claim("C09", "model-based property testing of idle/expiry histories (rapid) against a model of last activity per browser, virtual time by ageing",
      WM + "expire machine: ExpireAfter 5 s-24 h, generated whitelists, sessions carrying application keys, pending 2FA logins, 2FA-setup secrets and OAuth2 state; gaps on either side of ExpireAfter. "
      "Oracle: a request arriving later than ExpireAfter after the model's last activity must show the downstream probe no current user and no non-whitelisted key, keep whitelisted keys visible, and leave only whitelisted keys in the client's session; "
      "a request arriving sooner is served as the session user and refreshes the stamp; logins that fire the auth event stamp the clock.",
      TRUST)

claim("C10", "model-free invariant checking over rapid-generated histories that reach every session-state class, then logout with every method",
      WM + "prefix histories reach logged-in, half-authed, mid-2FA-login, mid-2FA-setup, mid-OAuth2, e-mail-verify and expired states (histogrammed in the evidence), then /logout is sent with each HTTP method under each LogoutMethod and whitelist. "
      "Oracle: configured method -> afterwards the session holds only whitelisted keys (values kept) plus the flash the logout redirect writes, the remember cookie is gone, and an immediate follow-up request to a protected route is refused; "
      "any other method -> 404/405 and client state untouched (modulo the remember/expire middlewares that run before routing).",
      TRUST)

claim("C12", "model-based property testing of one-time-secret histories (rapid) against model multisets of unused secrets, copy-semantics storage",
      WM + "generate / use / replay / clear / regenerate of one-time passwords, recovery codes, SMS login codes and TOTP codes (replay protection on/off) across accounts and browsers, with candidates that include empty values, "
      "stored hashes replayed as codes and other accounts' live secrets. Oracle: a value is accepted iff it is in the model's unused multiset of the target account; after acceptance storage no longer verifies it while every other unused value still verifies "
      "and the list shrank by exactly one; never more than five one-time passwords; a final sweep uses every remaining one-time password exactly once.",
      TRUST)

claim("C13", "model-based property testing of 2FA-settings histories (rapid): every change of a stored 2FA field of any account must be justified by ground truth",
      WM + "setup / confirm / remove / regenerate / e-mail-verify requests from anonymous, pending, half-authed and fully authed sessions, with codes and tokens that are valid, valid for another secret or number, empty, absent or stale; "
      "e-mail authorisation on/off; TOTP and SMS. Oracle: the stored TOTP secret, SMS number and recovery-code set of every account are diffed around every request; a change needs a fully authed owner session and proof of the factor "
      "being enrolled (code for the enrolling secret/number) or removed (code of the registered factor or an unused recovery code); with e-mail authorisation required an enrolment handler may run only after the session presented the token "
      "the mailbox shows was mailed to the account for that session, and a completed enrolment spends it.",
      TRUST)

claim("C14", "model-based property testing of OAuth2 start/callback interleavings (rapid) + round-trip/injectivity PBT and native fuzz on the PID codec",
      WM + "oauth2 machine: 1-3 providers, 2-3 browsers, start and callback requests interleaved across browsers and providers; states own / other browser's / previous / empty / mutated / random; good and bad codes, provider errors; "
      "provider-returned uids empty, with ';' and ';;', non-ASCII, 400 bytes. Oracle: a callback may log in only if the session's held state equals the submitted one, there is no provider error and exchange+details succeed - then the session "
      "identifies exactly MakeOAuth2PID(provider, reported uid) and storage holds that pair; every other callback leaves the session user and every user record equal; a matched state is spent when the response is written. "
      "Codec: distinct (provider, uid) pairs give distinct PIDs and Parse(Make(p,u)) == (p,u) whenever parsing succeeds.",
      TRUST)

claim("C15", "grammar-based property testing of return-target strings (rapid) over a real socket against an independent WHATWG-style same-origin classifier + native fuzz seeded with hostile constants",
      "Return targets are drawn from a grammar of safe relative forms and hostile spellings (absolute URLs in any scheme/case, //host, /\\host, \\/host, scheme:host, leading space / C0 controls, embedded tab/CR/LF, userinfo, ports, IPv6, look-alike hosts) plus raw strings, "
      "and delivered by query or body to the password, OTP, TOTP-validate, SMS-validate and OAuth2 flows in form and JSON mode on http and https sites. The response head is read raw from a loopback socket (so the judged Location is what net/http really emits) "
      "and both the Location header and the JSON location are resolved by an independent same-origin classifier; anything a browser would resolve to another origin is a violation.",
      TRUST + " The classifier is part of the trusted base; it is validated against ~90 hand-labelled strings for both base schemes.", engine="redirect-strings")

claim("C16", "paired-run differential property testing (rapid): two worlds from one generated description, byte equality of the client-observable transcripts",
      "For each generated description (module superset and load order, form/JSON, username/e-mail PIDs, error handler, middleware, lock counters / last-attempt age / lock deadline, 2FA on/off, rm requested or not) two identical worlds are built with the same "
      "seeded random stream; pair (a) sends a correct vs an incorrect password to a locked, confirmed account, pair (b) a recovery request for an existing vs a non-existing account, pair (c) a failed /login and /otp/login for an unknown vs a known account "
      "that the attempt does not lock. Oracle: status, every header, body, session and cookies after the response are byte-equal.",
      TRUST + " Timing side channels are outside the statement.", engine="paired-differential")

claim("C17", "invariant checking over rapid-generated all-flow histories: substring scans of storage, logs and mail recipients for every secret the harness knows",
      WM + "every secret the harness typed or was shown is registered (passwords incl. rejected ones, one-time passwords, recovery codes, remember cookie values, mailed confirm/recover/2FA-verify tokens and mangled submissions of them). "
      "After every step: no registered secret is a substring of any string field of any changed user record or of the remember table; no new log line contains one; every mail carrying a token is addressed only to the e-mail (and declared secondaries) "
      "of the account whose stored selector that token hashes to.",
      TRUST)

claim("C19", "property-based testing of the validation rules against a reference policy evaluator (rapid + native fuzz) and of registration requests against a user-table-diff oracle",
      "(i) random Rules (every minimum 0-4, Min/MaxLength, Required, AllowWhitespace, regex) x strings over letters/digits/symbols/whitespace/non-ASCII/invalid UTF-8: IsValid(s) must equal an independent reading of the policy and Errors(s)==nil iff valid. "
      "(ii) 1-4 registration requests per generated configuration (form/JSON, e-mail/username, with/without confirm, generated whitelist/preserve lists) with duplicate, missing, extra and hostile fields (confirmed, locked, password_hash, ...), "
      "policy-violating and 73-byte passwords, and re-registration of existing PIDs. Oracle: invalid or duplicate -> snapshot equal and no session; valid -> exactly one new user whose hash verifies the submitted password, extra fields within the whitelist, "
      "no privileged field set, nobody else changed, logged in iff confirm is not loaded, otherwise unconfirmed with exactly one mail to it.",
      TRUST, engine="register+rules")

claim("C18", "fault enumeration: scripted scenarios x every backend call x error kinds x both error handlers, plus rapid-generated histories with random fault placement",
      "46 scripted scenarios cover every route and middleware of every module; for each, a fault-free run discovers the backend calls of the target request (storage methods, hasher, renderers, SMS sender) and then EVERY call index is failed in turn, "
      "with each applicable error kind (generic; ErrUserNotFound/ErrTokenNotFound/ErrUserFound where the method can return them), under both the silent default error handler and one that writes a 500, followed by monotonicity probes (re-submission of the credential). "
      "Random all-flow histories additionally inject a fault into ~30% of requests. Oracle: no panic; a success-class response implies the reported change is in storage; a session obtained through a one-time credential implies its consumption was saved; "
      "nothing that was accepted once is accepted again.",
      TRUST + " One fault per request; faults in the client-state stores are not injected (the statement lists storage, hasher, renderer and SMS sender).", level="fault_enumeration", engine="fault-enumerator")

claim("C20", "concurrent stress under the Go race detector with rapid-generated client scripts and seed-driven schedule perturbation; solo-vs-concurrent transcript differential",
      "One initialised instance with the shipped router, body reader, responder, redirector, error handler, logger and LogMailer / SMTPMailer (against a loopback SMTP server), library mail goroutines on or off. 2-8 clients with their own browser and account "
      "run generated scripts (login ok/bad, register+confirm, recover, OTP add/login, remember visit, logout, protected visits) concurrently; schedules are perturbed by seed-driven yields/sleeps injected in harness callbacks that library code calls "
      "(storage, client state, mailer, logger) and by GOMAXPROCS 2/4/16. Oracle: (1) the race detector (test binary built with -race, halt on first report; the case in flight is the replay) and (2) each client's transcript equals the one of the same script run alone in a fresh world.",
      TRUST + " Interleavings are sampled, not enumerated: cross-talk that needs one specific interleaving may be missed (DESIGN.md §6).", engine="concurrent-stress")

# What the seeding rounds added (DESIGN.md 8.5 / 8.6), appended to the level text
ADD = {
 "C01": " A share of the requests runs with one backend call failed, with a spoiled JSON body or an unparsable query string: the rules are safety rules and apply unchanged.",
 "C02": " A share of the requests runs with one backend call failed; TOTP codes are also submitted cut to their leading/trailing digits or blank-padded; Setup() calls before or after Init().",
 "C03": " A share of the requests runs with one backend call failed (no failure may let a locked / unconfirmed account in).",
 "C04": " Login steps also run with one backend call failed (a surfaced error resyncs the model, a clean report is judged normally), with one-time TOTP users (a repeated code is a failure) and, in JSON mode, with unparsable query strings.",
 "C05": " Token-consuming requests also run with one backend call failed (nothing saved -> no success report, token stays outstanding); opening the mailed link (GET) must change nothing.",
 "C06": " Garbage and mangled remember cookies are planted in the browsers that perform the change.",
 "C08": " A second test (TestC08World) judges the safety half inside whole request chains: behind the remember/expire middleware, over all flows, with backend faults - a protected probe ran only if the pre-request session (or a completed remember re-authentication) satisfied the requirement. Return targets are compared on the RFC 3986-normalised escaped path.",
 "C09": " Lock and remember may be loaded; login steps also run with one backend call failed; the expiry verdict uses the stamp's real (one-second) precision with gaps ExpireAfter-2 s, ExpireAfter, ExpireAfter+1 s.",
 "C10": " Methods include HEAD, PATCH and OPTIONS.",
 "C12": " The steps that use a one-time value also run with one backend call failed: a session (or parked login) then still implies the value was unused and is gone from storage; the code that confirmed a TOTP enrolment counts as last accepted code.",
 "C13": " Enrolment requests also run with one backend call failed; the e-mail authorisation is modelled per account (it authorises only the account the token was mailed to); the deprecated RoutesRedirectOnUnauthed flag is a configuration dimension.",
 "C14": " The state parameter may also be absent altogether.",
 "C15": " The browser may already be logged in (as the same or another account) before the flow; the OAuth2 start answer is judged like the final one.",
 "C16": " Both worlds first serve a generated prelude of requests (the pair is compared after a history, not only on a fresh account); the recover pair also runs with the mail sender or renderer failing.",
 "C17": " A share of the requests runs with one backend call failed, with a spoiled JSON body or an unparsable query string (error paths log too).",
 "C18": " A request that never returns (watchdog) is a violation; identifiers include one-character names; a reported password recovery must have removed older remember tokens.",
 "C20": " A second, sequential test (TestC20Faults) runs client A's script with backend faults and then client B on the same instance: B's transcript must equal B alone and every request must return.",
}

NOT_YET = "check not built yet in this round (claimed in DESIGN.md; will be claimed once its check is committed)"

def main():
    props = [json.loads(l) for l in open(os.path.join(ROOT, "properties.jsonl"))]
    checks, na = [], []
    for p in props:
        pid = p["id"]
        if pid not in C:
            na.append({"property_id": pid, "reason": NOT_YET})
            continue
        c = C[pid]
        checks.append({
            "property_id": pid,
            "quick_cmd": "./check %s quick" % pid,
            "thorough_cmd": "./check %s thorough" % pid,
            "evidence_file": "/verif/evidence/%s.json" % pid,
            "replay_cmd_template": "./check %s --replay {path}" % pid,
            "engine": c["engine"],
            "level_claimed": {"category": c["level"], "text": c["text"] + ADD.get(pid, ""), "design_ref": "DESIGN.md §3.%s" % pid},
            "level_note": c["note"],
            "technique": c["technique"],
        })
    m = {
        "version": 1,
        "setup_cmd": "./check --setup",
        "hooks": {
            "guard": "verif",
            "enable": "no source hooks exist: the checks build /repo as it is (go test -c with a replace directive pointing at /repo)",
            "baseline_off_cmd": "cd /repo && go test -vet=off -count=1 ./...",
            "source_commits": [],
            "add_only": True,
        },
        "engines": [
            {"name": "world-machine", "path": "/verif/props/engine_test.go", "kind_free_text": "rapid-generated op histories interpreted against a full application World (harness/) with per-property monitors",
             "serves_properties": sorted(k for k, v in C.items() if v["engine"] == "world-machine")},
            {"name": "table+strings", "path": "/verif/props/c08_test.go", "kind_free_text": "exhaustive finite table crossed with rapid-generated strings", "serves_properties": ["C08"]},
            {"name": "redirect-strings", "path": "/verif/props/c15_test.go", "kind_free_text": "grammar-generated redirect targets through real flows over a loopback socket", "serves_properties": ["C15"]},
            {"name": "paired-differential", "path": "/verif/props/c16_test.go", "kind_free_text": "two worlds from one description, transcript equality", "serves_properties": ["C16"]},
            {"name": "register+rules", "path": "/verif/props/c19_test.go", "kind_free_text": "rules PBT against a reference evaluator; registration requests against a user-table diff", "serves_properties": ["C19"]},
            {"name": "fault-enumerator", "path": "/verif/props/c18_test.go", "kind_free_text": "scripted scenarios x backend call index x error kind x error handler; random histories with injected faults", "serves_properties": ["C18"]},
            {"name": "concurrent-stress", "path": "/verif/props/c20_test.go", "kind_free_text": "K concurrent clients against one instance under -race; solo re-run differential", "serves_properties": ["C20"]},
            {"name": "handler-program", "path": "/verif/props/c11_test.go", "kind_free_text": "rapid-generated handler programs against recording stores", "serves_properties": ["C11"]},
        ],
        "checks": checks,
        "not_applicable": na,
        "notes": "All checks: ./check <id> quick|thorough ; replay: ./check <id> --replay <file>. Known findings: /verif/known_findings.json. See DESIGN.md.",
    }
    json.dump(m, open(os.path.join(ROOT, "MANIFEST.json"), "w"), indent=1)
    print("MANIFEST.json: %d checks, %d not_applicable" % (len(checks), len(na)))

if __name__ == "__main__":
    main()
