#!/bin/bash
# tools/runall.sh [tier] [seed...]  - runs every claimed check, prints one line each
tier=${1:-quick}; shift
seeds=${@:-1}
cd "$(dirname "$0")/.."
for seed in $seeds; do
for p in $(python3 -c "import json;print(' '.join(c['property_id'] for c in json.load(open('MANIFEST.json'))['checks']))"); do
  out=$(VERIF_SEED=$seed ./check $p $tier 2>&1); rc=$?
  echo "seed=$seed $p rc=$rc $(echo "$out" | tail -1 | cut -c1-200)"
done
done
