#!/bin/bash
# tools/seedsetup.sh <round> "<flavour0>" "<flavour1>" "<flavour2>" "<flavour3>"
# creates /tmp/seed<round>-Cxx worktrees with PROPERTY.txt, AVOID.txt, FLAVOUR.txt (nothing else from /verif)
cd "$(dirname "$0")/.."
round=$1; shift
python3 - "$round" "$@" <<'PY'
import json, sys, os, glob, subprocess
rnd = sys.argv[1]; fl = sys.argv[2:]
props = [json.loads(l) for l in open("properties.jsonl")]
for i, p in enumerate(props):
    wt = "/tmp/seed%s-%s" % (rnd, p["id"])
    if not os.path.isdir(wt):
        subprocess.check_call(["git", "-C", "/repo", "worktree", "add", "-q", "--detach", wt, "HEAD"])
    os.makedirs(wt + "/out", exist_ok=True)
    txt = p.get("title", "") + "\n\n" + (p.get("statement") or p.get("text") or "")
    open(wt + "/PROPERTY.txt", "w").write(txt + "\n")
    av = []
    for m in sorted(glob.glob("seeded/%s*/meta.json" % p["id"])):
        try: av.append("- " + json.load(open(m))["needs_to_manifest"])
        except Exception: pass
    open(wt + "/AVOID.txt", "w").write("\n".join(av) + "\n")
    open(wt + "/FLAVOUR.txt", "w").write(fl[(i + int(rnd)) % len(fl)] + "\n")
    print(wt, len(av), fl[(i + int(rnd)) % len(fl)][:40])
PY
