#!/bin/bash
# tools/seedsave2.sh <src worktree> <prop> <dest id e.g. C05-2> "<needs>" "<detected-by>"
srcwt=$1; prop=$2; dest=$3; needs=$4; det=$5
here=$(cd "$(dirname "$0")/.." && pwd)
base=$(basename "$srcwt")
demo=$(grep -o 'demo=[^ ]*' "$here/.work/seedverify-$base.txt" | head -1 | cut -d= -f2)
dst="$here/seeded/$dest"; mkdir -p "$dst"
cp "$srcwt/out/patch.diff" "$dst/patch.diff"; cp "$srcwt/$demo" "$dst/$(basename "$demo")"; cp "$srcwt/out/NOTE.md" "$dst/NOTE.md" 2>/dev/null
python3 - "$prop" "$dest" "$demo" "$needs" "$det" "$here" "$base" <<'PY'
import json, sys, os
prop, dest, demo, needs, det, here, base = sys.argv[1:8]
ran = open(os.path.join(here, ".work", "seedverify-%s.txt" % base)).read().strip().splitlines()
p = [json.loads(l) for l in open(os.path.join(here, "properties.jsonl")) if json.loads(l)["id"] == prop][0]
meta = {"breaks_property": prop, "property_title": p["title"], "origin": "independent sub-agent (later round: told only the property text, ideas already used to avoid, and a flavour hint such as fault, ordering, configuration or input) working in a scratch worktree of /repo",
        "needs_to_manifest": needs, "demo": {"file": os.path.basename(demo), "original_path": demo},
        "confirmed_in_scratch_worktree": ran, "detected_by": det,
        "how_to_run_the_check_against_it": "tools/seeded_run.sh %s   (git -C /repo apply seeded/%s/patch.diff; ./check %s quick; git -C /repo checkout -- .)" % (dest, dest, prop)}
json.dump(meta, open(os.path.join(here, "seeded", dest, "meta.json"), "w"), indent=1)
print("saved seeded/%s" % dest)
PY
