#!/usr/bin/env python3
"""tools/mkmut.py <prop> <name> <file> <<< JSON [[old,new],...]   (or: old/new as argv 4,5)
Creates mutants/<prop>/<name>.patch by string replacement in a scratch worktree of /repo HEAD,
checks that it builds and that the existing suite still passes (prints SUITE-FAILS otherwise)."""
import sys, os, subprocess, tempfile, json, shutil
prop, name, rel = sys.argv[1:4]
pairs = [[sys.argv[4], sys.argv[5]]] if len(sys.argv) >= 6 else json.load(sys.stdin)
root = os.path.dirname(os.path.dirname(os.path.abspath(__file__)))
d = tempfile.mkdtemp(prefix="mkmut.", dir="/tmp")
env = dict(os.environ, GOFLAGS="-mod=mod", GOPROXY="off", GOSUMDB="off", GOTOOLCHAIN="local")
subprocess.check_call(["git", "-C", "/repo", "worktree", "add", "-q", "--detach", d, "HEAD"])
try:
    p = os.path.join(d, rel)
    s = open(p).read()
    for old, new in pairs:
        if s.count(old) != 1:
            print("ERROR: pattern occurs %d times: %r" % (s.count(old), old[:60])); sys.exit(3)
        s = s.replace(old, new)
    open(p, "w").write(s)
    diff = subprocess.check_output(["git", "-C", d, "diff"], text=True)
    os.makedirs(os.path.join(root, "mutants", prop), exist_ok=True)
    out = os.path.join(root, "mutants", prop, name + ".patch")
    open(out, "w").write(diff)
    r = subprocess.run("go build ./... && go test -vet=off -count=1 ./... 2>&1 | grep -Ev '^ok|no test files' | head -20", shell=True, cwd=d, env=env, stdout=subprocess.PIPE, stderr=subprocess.STDOUT, text=True)
    if r.stdout.strip():
        print("SUITE-FAILS or build error for %s:\n%s" % (name, r.stdout[:1500]))
    else:
        print("ok %s (builds, suite passes)" % out)
finally:
    subprocess.call(["git", "-C", "/repo", "worktree", "remove", "--force", d])
    shutil.rmtree(d, ignore_errors=True)
    subprocess.call(["git", "-C", "/repo", "worktree", "prune"])
