#!/bin/bash
# tools/seedverify.sh <Cxx> <demo-relative-path> <go test args for the demo...>
# Confirms an independently written change from /tmp/seed-Cxx/out: patch applies to /repo HEAD, builds, suite passes,
# demo fails with it and passes without it; then runs the property's quick check against the patched tree.
set -u
id=$1; demo=$2; shift 2
export GOFLAGS=-mod=mod GOPROXY=off GOSUMDB=off GOTOOLCHAIN=local
src=/tmp/seed-$id/out
d=$(mktemp -d /tmp/sv.XXXXXX)
git -C /repo worktree add -q --detach "$d" HEAD || exit 3
cleanup() { git -C /repo worktree remove --force "$d" 2>/dev/null; rm -rf "$d"; git -C /repo worktree prune; }
trap cleanup EXIT
here=$(cd "$(dirname "$0")/.." && pwd)
res="$here/.work/seedverify-$id.txt"; : > "$res"
log() { echo "$@" | tee -a "$res"; }
git -C "$d" apply "$src/patch.diff" || { log "PATCH-DOES-NOT-APPLY"; exit 3; }
log "files changed: $(git -C "$d" diff --stat | tail -1)"
(cd "$d" && go build ./... ) || { log "BUILD-FAILS"; exit 3; }
suite=$(cd "$d" && go test -vet=off -count=1 ./... 2>&1 | grep -Ev '^ok|no test files')
if [ -n "$suite" ]; then log "SUITE-FAILS-WITH-CHANGE: $suite"; else log "suite passes with change"; fi
mkdir -p "$d/$(dirname "$demo")"; cp "/tmp/seed-$id/$demo" "$d/$demo"
(cd "$d" && go test -vet=off -count=1 "$@" >/tmp/sv-demo.txt 2>&1); rc1=$?
log "demo with change: exit=$rc1 (want non-zero)"; tail -5 /tmp/sv-demo.txt >> "$res"
git -C "$d" apply -R "$src/patch.diff"
(cd "$d" && go test -vet=off -count=1 "$@" >/tmp/sv-demo.txt 2>&1); rc2=$?
log "demo without change: exit=$rc2 (want 0)"
git -C "$d" apply "$src/patch.diff"; rm -f "$d/$demo"
mkdir -p "$here/.work/mut"
out=$(VERIF_REPO="$d" VERIF_EVIDENCE_DIR="$here/.work/mut/evidence" VERIF_FOUND_DIR="$here/.work/mut/found" "$here/check" "$id" quick 2>&1); rc3=$?
log "check $id quick against the change: exit=$rc3 (1 = detected)"
echo "$out" | grep -E "VIOLATION|INCONCLUSIVE|OK property" | sort | uniq -c | sort -rn | head -5 | tee -a "$res"
