package harness

import (
	"context"
	"encoding/json"
	"fmt"
	"net/http"
	"sort"
	"strconv"
	"strings"
	"sync"
	"time"

	"github.com/volatiletech/authboss/v3"
)

// Jar is one browser's client-side state.
type Jar struct {
	mu      sync.Mutex
	Session map[string]string
	Cookies map[string]string
}

func NewJar() *Jar { return &Jar{Session: map[string]string{}, Cookies: map[string]string{}} }

func copyMap(m map[string]string) map[string]string {
	c := make(map[string]string, len(m))
	for k, v := range m {
		c[k] = v
	}
	return c
}

// SessionCopy / CookieCopy return snapshots.
func (j *Jar) SessionCopy() map[string]string {
	j.mu.Lock()
	defer j.mu.Unlock()
	return copyMap(j.Session)
}
func (j *Jar) CookieCopy() map[string]string {
	j.mu.Lock()
	defer j.mu.Unlock()
	return copyMap(j.Cookies)
}

// SetSession / SetCookie / Del* are harness-side edits (browser behaviour).
func (j *Jar) SetSession(k, v string) { j.mu.Lock(); j.Session[k] = v; j.mu.Unlock() }
func (j *Jar) DelSession(k string)    { j.mu.Lock(); delete(j.Session, k); j.mu.Unlock() }
func (j *Jar) SetCookie(k, v string)  { j.mu.Lock(); j.Cookies[k] = v; j.mu.Unlock() }
func (j *Jar) DelCookie(k string)     { j.mu.Lock(); delete(j.Cookies, k); j.mu.Unlock() }
func (j *Jar) ClearSession()          { j.mu.Lock(); j.Session = map[string]string{}; j.mu.Unlock() }

type ctxKey string

const (
	ctxJar   ctxKey = "verif-jar"
	ctxProbe ctxKey = "verif-probe"
)

// jarState is the immutable snapshot handed to authboss for one request.
type jarState struct {
	jar     *Jar
	session bool
	snap    map[string]string
}

func (s jarState) Get(k string) (string, bool) { v, ok := s.snap[k]; return v, ok }

// StateRW implements authboss.ClientStateReadWriter over the request's Jar.
type StateRW struct {
	Session bool
	B       *Backend
	// Resolve finds the jar for a request (in-process: context; socket: header).
	Resolve func(*http.Request) *Jar
	// NilWhenEmpty: ReadState answers (nil, nil) when the browser holds no value of this kind
	NilWhenEmpty bool
}

type jarCarrier interface{ JarOf() *Jar }

func (rw StateRW) ReadState(r *http.Request) (authboss.ClientState, error) {
	j := rw.Resolve(r)
	if j == nil {
		return jarState{jar: nil, session: rw.Session, snap: map[string]string{}}, nil
	}
	if rw.B != nil && rw.B.Yield != nil {
		rw.B.Yield()
	}
	if rw.Session {
		snap := j.SessionCopy()
		if rw.NilWhenEmpty && len(snap) == 0 {
			return nil, nil
		}
		return jarState{jar: j, session: true, snap: snap}, nil
	}
	return jarState{jar: j, session: false, snap: j.CookieCopy()}, nil
}

// WriteState applies Put/Del/DelAll honouring the whitelist exactly as the
// ClientStateEventDelAll documentation says.
func (rw StateRW) WriteState(w http.ResponseWriter, state authboss.ClientState, evs []authboss.ClientStateEvent) error {
	st, ok := state.(jarState)
	if !ok || st.jar == nil {
		// no state was read for this request: the response writer knows whose response it is
		// (authboss hands its own wrapper over: look underneath)
		var jar *Jar
		for cur := w; cur != nil && jar == nil; {
			if jc, has := cur.(jarCarrier); has {
				jar = jc.JarOf()
				break
			}
			u, ok := cur.(interface{ UnderlyingResponseWriter() http.ResponseWriter })
			if !ok {
				break
			}
			cur = u.UnderlyingResponseWriter()
		}
		if jar == nil {
			return nil
		}
		st = jarState{jar: jar, session: rw.Session}
	}
	if rw.B != nil && rw.B.Yield != nil {
		rw.B.Yield()
	}
	j := st.jar
	j.mu.Lock()
	defer j.mu.Unlock()
	m := j.Cookies
	if rw.Session {
		m = j.Session
	}
	for _, ev := range evs {
		switch ev.Kind {
		case authboss.ClientStateEventPut:
			m[ev.Key] = ev.Value
		case authboss.ClientStateEventDel:
			delete(m, ev.Key)
		case authboss.ClientStateEventDelAll:
			keep := map[string]bool{}
			if ev.Key != "" {
				for _, k := range strings.Split(ev.Key, ",") {
					keep[k] = true
				}
			}
			for k := range m {
				if !keep[k] {
					delete(m, k)
				}
			}
		}
	}
	return nil
}

// ShiftJarTimes ages the time-valued session keys by d.
func ShiftJarTimes(j *Jar, d time.Duration) {
	j.mu.Lock()
	defer j.mu.Unlock()
	// every instant the session holds ages, whichever key it is kept under and in whichever of the
	// usual spellings (RFC 3339 with or without fractions, unix seconds): the library - or a changed
	// library - may stamp values the harness has no list of
	for k, v := range j.Session {
		if t, err := time.Parse(time.RFC3339, v); err == nil {
			j.Session[k] = t.Add(-d).UTC().Format(time.RFC3339)
			continue
		}
		if t, err := time.Parse(time.RFC3339Nano, v); err == nil {
			j.Session[k] = t.Add(-d).UTC().Format(time.RFC3339Nano)
			continue
		}
		if n, err := strconv.ParseInt(v, 10, 64); err == nil && (k == "sms_last" || (n > 1_000_000_000 && n < 4_000_000_000)) {
			j.Session[k] = strconv.FormatInt(n-int64(d/time.Second), 10)
		}
	}
}

// ---- mail / sms / log capture ----

// Mail is one captured e-mail.
type Mail struct {
	To      []string
	Subject string
	Data    map[string]interface{} // parsed JSON body
	URL     string                 // "url" or "recover_url"
	Token   string                 // cnf / token query parameter of URL
	Raw     string
}

type Mailbox struct {
	mu    sync.Mutex
	Mails []Mail
	held  []authboss.Email // the values as handed over (an outbox flushed later keeps exactly these): their slices may still be shared with the library
	Yield func()
	Fail  bool
	B     *Backend // the sender counts as a backend call ("MailSend") that a fault plan can fail
}

func (m *Mailbox) Send(ctx context.Context, e authboss.Email) error {
	if m.Yield != nil {
		m.Yield()
	}
	ml := Mail{To: append([]string(nil), e.To...), Subject: e.Subject, Raw: e.TextBody}
	ml.To = append(ml.To, e.Cc...)
	ml.To = append(ml.To, e.Bcc...)
	var data map[string]interface{}
	if json.Unmarshal([]byte(e.TextBody), &data) == nil {
		ml.Data = data
		for _, k := range []string{"url", "recover_url"} {
			if s, ok := data[k].(string); ok {
				ml.URL = s
			}
		}
		if i := strings.IndexByte(ml.URL, '?'); i >= 0 {
			q := ml.URL[i+1:]
			for _, kv := range strings.Split(q, "&") {
				if eq := strings.IndexByte(kv, '='); eq >= 0 {
					k := kv[:eq]
					if k == "cnf" || k == "token" {
						v, err := queryUnescape(kv[eq+1:])
						if err == nil {
							ml.Token = v
						}
					}
				}
			}
		}
	}
	m.mu.Lock()
	m.Mails = append(m.Mails, ml)
	m.held = append(m.held, e)
	fail := m.Fail
	m.mu.Unlock()
	if fail {
		return ErrInjected
	}
	if m.B != nil {
		return m.B.Enter("MailSend", nil)
	}
	return nil
}

// Changed lists the mails whose recipients or text are no longer what they were when the
// library handed them to the mailer: a mailer that queues mails (or is still delivering one)
// would send the changed version.
func (m *Mailbox) Changed() []string {
	m.mu.Lock()
	defer m.mu.Unlock()
	var out []string
	for i, e := range m.held {
		now := append(append(append([]string(nil), e.To...), e.Cc...), e.Bcc...)
		if strings.Join(now, ",") != strings.Join(m.Mails[i].To, ",") || e.TextBody != m.Mails[i].Raw {
			out = append(out, fmt.Sprintf("mail #%d handed over for %v now reads to=%v (text changed: %v)", i, m.Mails[i].To, now, e.TextBody != m.Mails[i].Raw))
		}
	}
	return out
}

func (m *Mailbox) Len() int { m.mu.Lock(); defer m.mu.Unlock(); return len(m.Mails) }
func (m *Mailbox) Since(n int) []Mail {
	m.mu.Lock()
	defer m.mu.Unlock()
	return append([]Mail(nil), m.Mails[n:]...)
}

// SMS is one captured text message.
type SMS struct {
	Number string
	Code   string
}

type SMSOutbox struct {
	mu   sync.Mutex
	Sent []SMS
	B    *Backend
}

func (o *SMSOutbox) Send(ctx context.Context, number, text string) error {
	// An injected gateway failure is reported after the message went out (a
	// timeout after delivery): the code in the text is the one authboss keeps in
	// the session either way, so the outbox is the complete record of issued codes.
	o.mu.Lock()
	o.Sent = append(o.Sent, SMS{number, text})
	o.mu.Unlock()
	return o.B.Enter("SMSSend", nil)
}
func (o *SMSOutbox) Len() int { o.mu.Lock(); defer o.mu.Unlock(); return len(o.Sent) }
func (o *SMSOutbox) Since(n int) []SMS {
	o.mu.Lock()
	defer o.mu.Unlock()
	return append([]SMS(nil), o.Sent[n:]...)
}

// LogCapture implements authboss.Logger.
type LogCapture struct {
	mu    sync.Mutex
	Lines []string
	Yield func()
}

func (l *LogCapture) Info(s string)  { l.add("I " + s) }
func (l *LogCapture) Error(s string) { l.add("E " + s) }
func (l *LogCapture) add(s string) {
	if l.Yield != nil {
		l.Yield()
	}
	l.mu.Lock()
	l.Lines = append(l.Lines, s)
	l.mu.Unlock()
}
func (l *LogCapture) Len() int { l.mu.Lock(); defer l.mu.Unlock(); return len(l.Lines) }
func (l *LogCapture) Since(n int) []string {
	l.mu.Lock()
	defer l.mu.Unlock()
	return append([]string(nil), l.Lines[n:]...)
}

// ---- wrapped renderer / hasher ----

type FaultRenderer struct {
	Inner authboss.Renderer
	B     *Backend
	Name  string
}

func (f FaultRenderer) Load(names ...string) error { return f.Inner.Load(names...) }
func (f FaultRenderer) Render(ctx context.Context, page string, data authboss.HTMLData) ([]byte, string, error) {
	if err := f.B.Enter(f.Name, nil); err != nil {
		return nil, "", err
	}
	return f.Inner.Render(ctx, page, data)
}

type FaultHasher struct {
	Inner authboss.Hasher
	B     *Backend
}

func (f FaultHasher) CompareHashAndPassword(hash, password string) error {
	// a comparison is not a fallible backend call: its error means "mismatch"
	return f.Inner.CompareHashAndPassword(hash, password)
}
func (f FaultHasher) GenerateHash(password string) (string, error) {
	if err := f.B.Enter("GenerateHash", nil); err != nil {
		return "", err
	}
	return f.Inner.GenerateHash(password)
}

func queryUnescape(s string) (string, error) {
	return urlQueryUnescape(s)
}

func sortedKeys(m map[string]string) []string {
	ks := make([]string, 0, len(m))
	for k := range m {
		ks = append(ks, k)
	}
	sort.Strings(ks)
	return ks
}
