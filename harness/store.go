package harness

import (
	"context"
	"errors"
	"sort"
	"sync"
	"time"

	"github.com/volatiletech/authboss/v3"
)

// User implements every user interface authboss and its modules know about
// (except totp2fa.UserOneTime, which UserOT adds).
type User struct {
	PID      string
	Email    string
	Password string

	Confirmed       bool
	ConfirmSelector string
	ConfirmVerifier string

	AttemptCount int
	LastAttempt  time.Time
	Locked       time.Time

	RecoverSelector string
	RecoverVerifier string
	RecoverExpiry   time.Time
	SecondaryEmails []string

	Arbitrary map[string]string

	OAuth2UID          string
	OAuth2Provider     string
	OAuth2AccessToken  string
	OAuth2RefreshToken string
	OAuth2Expiry       time.Time

	OTPs string

	TOTPSecretKey string
	TOTPLastCode  string
	SMSPhone      string
	SMSSeed       string
	RecoveryCodes string

	emailIsPID bool
}

// UserOT is a User that additionally supports TOTP replay protection.
type UserOT struct{ *User }

// UserNA / UserNAOT are the same users for an application whose user type has no
// arbitrary-values support: the two methods of authboss.ArbitraryUser are shadowed by
// methods of another signature, so the library's type assertion fails.
type UserNA struct{ *User }

func (UserNA) GetArbitrary(struct{}) {}
func (UserNA) PutArbitrary(struct{}) {}

type UserNAOT struct{ UserOT }

func (UserNAOT) GetArbitrary(struct{}) {}
func (UserNAOT) PutArbitrary(struct{}) {}

func (u UserOT) GetTOTPLastCode() string  { return u.User.TOTPLastCode }
func (u UserOT) PutTOTPLastCode(s string) { u.User.TOTPLastCode = s }

func (u *User) GetPID() string { return u.PID }
func (u *User) PutPID(p string) {
	u.PID = p
	if u.emailIsPID {
		u.Email = p
	}
}
func (u *User) GetPassword() string          { return u.Password }
func (u *User) PutPassword(p string)         { u.Password = p }
func (u *User) GetEmail() string             { return u.Email }
func (u *User) PutEmail(e string)            { u.Email = e }
func (u *User) GetConfirmed() bool           { return u.Confirmed }
func (u *User) PutConfirmed(c bool)          { u.Confirmed = c }
func (u *User) GetConfirmSelector() string   { return u.ConfirmSelector }
func (u *User) PutConfirmSelector(s string)  { u.ConfirmSelector = s }
func (u *User) GetConfirmVerifier() string   { return u.ConfirmVerifier }
func (u *User) PutConfirmVerifier(s string)  { u.ConfirmVerifier = s }
func (u *User) GetAttemptCount() int         { return u.AttemptCount }
func (u *User) PutAttemptCount(n int)        { u.AttemptCount = n }
func (u *User) GetLastAttempt() time.Time    { return u.LastAttempt }
func (u *User) PutLastAttempt(t time.Time)   { u.LastAttempt = t }
func (u *User) GetLocked() time.Time         { return u.Locked }
func (u *User) PutLocked(t time.Time)        { u.Locked = t }
func (u *User) GetRecoverSelector() string   { return u.RecoverSelector }
func (u *User) PutRecoverSelector(s string)  { u.RecoverSelector = s }
func (u *User) GetRecoverVerifier() string   { return u.RecoverVerifier }
func (u *User) PutRecoverVerifier(s string)  { u.RecoverVerifier = s }
func (u *User) GetRecoverExpiry() time.Time  { return u.RecoverExpiry }
func (u *User) PutRecoverExpiry(t time.Time) { u.RecoverExpiry = t }
func (u *User) GetSecondaryEmails() []string { return append([]string(nil), u.SecondaryEmails...) }

func (u *User) GetArbitrary() map[string]string {
	m := map[string]string{}
	for k, v := range u.Arbitrary {
		m[k] = v
	}
	return m
}

// PutArbitrary keeps every key it is given except email/password, which have
// dedicated setters (the default register whitelist passes both through the
// arbitrary map; an application storing the plaintext password from there
// would be the application's bug). Anything else reaching storage is visible.
func (u *User) PutArbitrary(m map[string]string) {
	if u.Arbitrary == nil {
		u.Arbitrary = map[string]string{}
	}
	for k, v := range m {
		if k == "email" {
			if !u.emailIsPID {
				u.Email = v // username mode: the e-mail address is an ordinary registration field
			}
			continue
		}
		if k == "password" {
			continue
		}
		u.Arbitrary[k] = v
	}
}

func (u *User) IsOAuth2User() bool             { return u.OAuth2UID != "" }
func (u *User) GetOAuth2UID() string           { return u.OAuth2UID }
func (u *User) GetOAuth2Provider() string      { return u.OAuth2Provider }
func (u *User) GetOAuth2AccessToken() string   { return u.OAuth2AccessToken }
func (u *User) GetOAuth2RefreshToken() string  { return u.OAuth2RefreshToken }
func (u *User) GetOAuth2Expiry() time.Time     { return u.OAuth2Expiry }
func (u *User) PutOAuth2UID(s string)          { u.OAuth2UID = s }
func (u *User) PutOAuth2Provider(s string)     { u.OAuth2Provider = s }
func (u *User) PutOAuth2AccessToken(s string)  { u.OAuth2AccessToken = s }
func (u *User) PutOAuth2RefreshToken(s string) { u.OAuth2RefreshToken = s }
func (u *User) PutOAuth2Expiry(t time.Time)    { u.OAuth2Expiry = t }
func (u *User) GetOTPs() string                { return u.OTPs }
func (u *User) PutOTPs(s string)               { u.OTPs = s }
func (u *User) GetTOTPSecretKey() string       { return u.TOTPSecretKey }
func (u *User) PutTOTPSecretKey(s string)      { u.TOTPSecretKey = s }
func (u *User) GetSMSPhoneNumber() string      { return u.SMSPhone }
func (u *User) PutSMSPhoneNumber(s string)     { u.SMSPhone = s }
func (u *User) GetSMSPhoneNumberSeed() string  { return u.SMSSeed }
func (u *User) GetRecoveryCodes() string       { return u.RecoveryCodes }
func (u *User) PutRecoveryCodes(s string)      { u.RecoveryCodes = s }
func (u *User) clone() *User {
	c := *u
	c.SecondaryEmails = append([]string(nil), u.SecondaryEmails...)
	if u.Arbitrary != nil {
		c.Arbitrary = map[string]string{}
		for k, v := range u.Arbitrary {
			c.Arbitrary[k] = v
		}
	}
	return &c
}

// ErrInjected is the generic backend failure used by fault plans.
var ErrInjected = errors.New("injected backend failure")

// FaultPlan fails exactly one backend call of a request.
type FaultPlan struct {
	// At is the 1-based index of the backend call to fail; 0 disables.
	At int
	// Kind is "generic", "notfound" (ErrUserNotFound/ErrTokenNotFound where the
	// method can return them, generic otherwise), "found" (ErrUserFound on Create) or
	// "cancel": no call fails, the request's context is cancelled when the At-th call is made.
	Kind string
	// Name, if set, fails the first backend call of that name instead of the At-th call.
	Name string
}

// Backend is the shared call counter / fault injector for storage, hasher,
// renderer and SMS sender.
type Backend struct {
	mu    sync.Mutex
	Calls []string // names of the backend calls of the current request
	Plan  FaultPlan
	Fired string // name of the call that was failed ("" if none)
	// Cancel cancels the context of the request in flight; Cancelled says a "cancel" plan did so
	Cancel    func()
	Cancelled bool
	Yield     func() // optional schedule perturbation (C20)
}

// Reset starts a new request.
func (b *Backend) Reset(p FaultPlan) {
	b.mu.Lock()
	b.Calls = b.Calls[:0]
	b.Plan = p
	b.Fired = ""
	b.Cancelled = false
	b.mu.Unlock()
}

// Enter records a call and returns the error to inject, if any.
func (b *Backend) Enter(name string, notFound error) error {
	if b.Yield != nil {
		b.Yield()
	}
	b.mu.Lock()
	defer b.mu.Unlock()
	b.Calls = append(b.Calls, name)
	if b.Plan.Name != "" {
		if name != b.Plan.Name || b.Fired != "" {
			return nil
		}
	} else if b.Plan.At == 0 || len(b.Calls) != b.Plan.At {
		return nil
	}
	if b.Plan.Kind == "cancel" {
		if b.Cancel != nil {
			b.Cancel()
		}
		b.Cancelled = true
		return nil
	}
	b.Fired = name
	switch b.Plan.Kind {
	case "notfound":
		if notFound != nil {
			return notFound
		}
	case "found":
		if name == "Create" {
			return authboss.ErrUserFound
		}
	}
	return ErrInjected
}

// Snapshot returns the call names so far.
func (b *Backend) Snapshot() []string {
	b.mu.Lock()
	defer b.mu.Unlock()
	return append([]string(nil), b.Calls...)
}

// Store is a database-like ServerStorer: Load returns copies, Save copies in.
type Store struct {
	mu       sync.Mutex
	users    map[string]*User
	tokens   map[string][]string
	B        *Backend
	OneTime  bool           // hand out UserOT (TOTP replay protection)
	NoArb    bool           // hand out users that do not implement authboss.ArbitraryUser
	Zone     *time.Location // the driver's location: instants come back from Load in this zone (same instants), as database drivers do
	EmailPID bool           // PID is the e-mail address
}

func NewStore(b *Backend) *Store {
	return &Store{users: map[string]*User{}, tokens: map[string][]string{}, B: b}
}

func (s *Store) wrap(u *User) authboss.User {
	if s.Zone != nil {
		for _, t := range []*time.Time{&u.Locked, &u.LastAttempt, &u.RecoverExpiry} {
			if !t.IsZero() {
				*t = t.In(s.Zone)
			}
		}
	}
	switch {
	case s.OneTime && s.NoArb:
		return UserNAOT{UserOT{u}}
	case s.NoArb:
		return UserNA{u}
	case s.OneTime:
		return UserOT{u}
	}
	return u
}

func unwrap(u authboss.User) *User {
	switch v := u.(type) {
	case *User:
		return v
	case UserOT:
		return v.User
	case UserNA:
		return v.User
	case UserNAOT:
		return v.UserOT.User
	}
	return nil
}

// Unwrap exposes the concrete user behind an authboss.User.
func Unwrap(u authboss.User) *User { return unwrap(u) }

func (s *Store) Load(ctx context.Context, key string) (authboss.User, error) {
	if err := s.B.Enter("Load", authboss.ErrUserNotFound); err != nil {
		return nil, err
	}
	s.mu.Lock()
	defer s.mu.Unlock()
	u, ok := s.users[key]
	if !ok {
		return nil, authboss.ErrUserNotFound
	}
	return s.wrap(u.clone()), nil
}

func (s *Store) Save(ctx context.Context, user authboss.User) error {
	if err := s.B.Enter("Save", authboss.ErrUserNotFound); err != nil {
		return err
	}
	u := unwrap(user)
	s.mu.Lock()
	defer s.mu.Unlock()
	if _, ok := s.users[u.PID]; !ok {
		return authboss.ErrUserNotFound
	}
	s.users[u.PID] = u.clone().utc()
	return nil
}

// utc: the database keeps instants; whatever zone a value was written in, it reads back as the same instant.
func (u *User) utc() *User {
	for _, t := range []*time.Time{&u.Locked, &u.LastAttempt, &u.RecoverExpiry} {
		if !t.IsZero() {
			*t = t.UTC()
		}
	}
	return u
}

func (s *Store) New(ctx context.Context) authboss.User {
	return s.wrap(&User{emailIsPID: s.EmailPID})
}

func (s *Store) Create(ctx context.Context, user authboss.User) error {
	if err := s.B.Enter("Create", nil); err != nil {
		return err
	}
	u := unwrap(user)
	s.mu.Lock()
	defer s.mu.Unlock()
	if _, ok := s.users[u.PID]; ok {
		return authboss.ErrUserFound
	}
	s.users[u.PID] = u.clone().utc()
	return nil
}

func (s *Store) LoadByConfirmSelector(ctx context.Context, selector string) (authboss.ConfirmableUser, error) {
	if err := s.B.Enter("LoadByConfirmSelector", authboss.ErrUserNotFound); err != nil {
		return nil, err
	}
	s.mu.Lock()
	defer s.mu.Unlock()
	for _, pid := range s.sortedPIDs() {
		u := s.users[pid]
		if u.ConfirmSelector == selector { // exact match like a database column, the empty string included
			return s.wrap(u.clone()).(authboss.ConfirmableUser), nil
		}
	}
	return nil, authboss.ErrUserNotFound
}

func (s *Store) LoadByRecoverSelector(ctx context.Context, selector string) (authboss.RecoverableUser, error) {
	if err := s.B.Enter("LoadByRecoverSelector", authboss.ErrUserNotFound); err != nil {
		return nil, err
	}
	s.mu.Lock()
	defer s.mu.Unlock()
	for _, pid := range s.sortedPIDs() {
		u := s.users[pid]
		if u.RecoverSelector == selector { // exact match like a database column, the empty string included
			return s.wrap(u.clone()).(authboss.RecoverableUser), nil
		}
	}
	return nil, authboss.ErrUserNotFound
}

// SeedToken files a remember token hash without counting as a backend call.
func (s *Store) SeedToken(pid, token string) {
	s.mu.Lock()
	defer s.mu.Unlock()
	s.tokens[pid] = append(s.tokens[pid], token)
}

func (s *Store) AddRememberToken(ctx context.Context, pid, token string) error {
	if err := s.B.Enter("AddRememberToken", nil); err != nil {
		return err
	}
	s.mu.Lock()
	defer s.mu.Unlock()
	s.tokens[pid] = append(s.tokens[pid], token)
	return nil
}

func (s *Store) DelRememberTokens(ctx context.Context, pid string) error {
	if err := s.B.Enter("DelRememberTokens", nil); err != nil {
		return err
	}
	s.mu.Lock()
	defer s.mu.Unlock()
	delete(s.tokens, pid)
	return nil
}

func (s *Store) UseRememberToken(ctx context.Context, pid, token string) error {
	if err := s.B.Enter("UseRememberToken", authboss.ErrTokenNotFound); err != nil {
		return err
	}
	s.mu.Lock()
	defer s.mu.Unlock()
	toks := s.tokens[pid]
	for i, t := range toks {
		if t == token {
			toks = append(toks[:i:i], toks[i+1:]...)
			if len(toks) == 0 {
				delete(s.tokens, pid)
			} else {
				s.tokens[pid] = toks
			}
			return nil
		}
	}
	return authboss.ErrTokenNotFound
}

// NewFromOAuth2 looks the user up by (provider, uid) or makes a blank,
// confirmed one (as the reference sample application does).
func (s *Store) NewFromOAuth2(ctx context.Context, provider string, details map[string]string) (authboss.OAuth2User, error) {
	if err := s.B.Enter("NewFromOAuth2", nil); err != nil {
		return nil, err
	}
	uid := details["uid"]
	pid := authboss.MakeOAuth2PID(provider, uid)
	s.mu.Lock()
	defer s.mu.Unlock()
	if u, ok := s.users[pid]; ok {
		c := u.clone()
		c.OAuth2UID, c.OAuth2Provider = uid, provider
		if e, ok := details["email"]; ok {
			c.Email = e
		}
		return s.wrap(c).(authboss.OAuth2User), nil
	}
	u := &User{PID: pid, OAuth2UID: uid, OAuth2Provider: provider, Email: details["email"], Confirmed: true}
	return s.wrap(u).(authboss.OAuth2User), nil
}

func (s *Store) SaveOAuth2(ctx context.Context, user authboss.OAuth2User) error {
	if err := s.B.Enter("SaveOAuth2", nil); err != nil {
		return err
	}
	u := unwrap(user)
	s.mu.Lock()
	defer s.mu.Unlock()
	s.users[u.PID] = u.clone()
	return nil
}

func (s *Store) sortedPIDs() []string {
	pids := make([]string, 0, len(s.users))
	for p := range s.users {
		pids = append(pids, p)
	}
	sort.Strings(pids)
	return pids
}

// ---- harness-side access (never counted as backend calls) ----

// Seed inserts or replaces a user directly.
func (s *Store) Seed(u *User) {
	s.mu.Lock()
	defer s.mu.Unlock()
	c := u.clone()
	c.emailIsPID = s.EmailPID
	s.users[u.PID] = c
}

// Peek returns a copy of the stored user or nil.
func (s *Store) Peek(pid string) *User {
	s.mu.Lock()
	defer s.mu.Unlock()
	if u, ok := s.users[pid]; ok {
		return u.clone()
	}
	return nil
}

// Mutate edits a stored user in place (harness-side only).
func (s *Store) Mutate(pid string, f func(*User)) bool {
	s.mu.Lock()
	defer s.mu.Unlock()
	u, ok := s.users[pid]
	if ok {
		f(u)
	}
	return ok
}

// PIDs lists all stored PIDs, sorted.
func (s *Store) PIDs() []string {
	s.mu.Lock()
	defer s.mu.Unlock()
	return s.sortedPIDs()
}

// Tokens returns a copy of the remember-token table entry.
func (s *Store) Tokens(pid string) []string {
	s.mu.Lock()
	defer s.mu.Unlock()
	return append([]string(nil), s.tokens[pid]...)
}

// Snap is a deep, comparable dump of all storage.
type Snap struct {
	Users  map[string]User
	Tokens map[string][]string
}

func (s *Store) Snapshot() Snap {
	s.mu.Lock()
	defer s.mu.Unlock()
	sn := Snap{Users: map[string]User{}, Tokens: map[string][]string{}}
	for p, u := range s.users {
		sn.Users[p] = *u.clone()
	}
	for p, t := range s.tokens {
		sn.Tokens[p] = append([]string(nil), t...)
	}
	return sn
}

// ShiftTimes moves every stored instant back by d (virtual clock +d).
func (s *Store) ShiftTimes(d time.Duration) {
	s.mu.Lock()
	defer s.mu.Unlock()
	sh := func(t *time.Time) {
		if !t.IsZero() {
			*t = t.Add(-d)
		}
	}
	for _, u := range s.users {
		sh(&u.LastAttempt)
		sh(&u.Locked)
		sh(&u.RecoverExpiry)
	}
}
