package harness

import (
	"bytes"
	"context"
	crand "crypto/rand"
	"crypto/sha256"
	"crypto/sha512"
	"encoding/base32"
	"encoding/base64"
	"encoding/binary"
	"encoding/json"
	"fmt"
	"io"
	"net/http"
	"net/http/httptest"
	"net/url"
	"runtime"
	"sort"
	"strings"
	"sync"
	"time"

	"github.com/volatiletech/authboss/v3"
	_ "github.com/volatiletech/authboss/v3/auth"
	"github.com/volatiletech/authboss/v3/confirm"
	"github.com/volatiletech/authboss/v3/defaults"
	"github.com/volatiletech/authboss/v3/expire"
	"github.com/volatiletech/authboss/v3/lock"
	_ "github.com/volatiletech/authboss/v3/logout"
	abo2 "github.com/volatiletech/authboss/v3/oauth2"
	_ "github.com/volatiletech/authboss/v3/otp"
	"github.com/volatiletech/authboss/v3/otp/twofactor"
	"github.com/volatiletech/authboss/v3/otp/twofactor/sms2fa"
	"github.com/volatiletech/authboss/v3/otp/twofactor/totp2fa"
	_ "github.com/volatiletech/authboss/v3/recover"
	_ "github.com/volatiletech/authboss/v3/register"
	"github.com/volatiletech/authboss/v3/remember"
	"golang.org/x/crypto/bcrypt"
	"golang.org/x/oauth2"
)

// AccountSpec describes an account seeded before the history starts.
type AccountSpec struct {
	PID         string   `json:"pid"`
	Email       string   `json:"email,omitempty"`
	Password    string   `json:"pw"`
	Unconfirmed bool     `json:"unconf,omitempty"`
	Locked      bool     `json:"locked,omitempty"`
	RmTokens    int      `json:"rm_tokens,omitempty"` // remember tokens already in storage for this account (issued by another instance on the same database)
	HashKind    string   `json:"hash_kind,omitempty"` // "", or a stored password no bcrypt can read: "empty", "md5", "sha256crypt", "trunc"
	OTPs        int      `json:"otps,omitempty"`
	TOTP        bool     `json:"totp,omitempty"`
	Phone       string   `json:"phone,omitempty"`
	Recovery    int      `json:"rec,omitempty"`
	Secondary   []string `json:"secondary,omitempty"`
	PhoneSeed   string   `json:"phoneseed,omitempty"`
}

// Config is the generated application configuration (JSON-serialisable so
// that a case can be replayed without the generator).
type Config struct {
	Seed     uint64   `json:"seed"`
	Modules  []string `json:"modules"`          // authboss.Init order
	Setups   []string `json:"setups,omitempty"` // Setup() order: expire, totp, sms, recovery
	Mount    string   `json:"mount"`
	JSON     bool     `json:"json,omitempty"`
	Username bool     `json:"username,omitempty"`
	Refusal  int      `json:"refusal,omitempty"` // authboss.MWRespondOnFailure

	LockAfter int `json:"lock_after,omitempty"`
	// LockAfterZero: Modules.LockAfter = 0, the boundary value (every failure locks; accounts can also be locked by the application)
	LockAfterZero bool `json:"lock_after_zero,omitempty"`
	LockWindowS   int  `json:"lock_window_s,omitempty"`
	LockDurS      int  `json:"lock_dur_s,omitempty"`
	ExpireS       int  `json:"expire_s,omitempty"`
	RecoverDurS   int  `json:"recover_dur_s,omitempty"`
	RecoverLogin  bool `json:"recover_login,omitempty"`
	EmailAuth     bool `json:"email_auth,omitempty"`

	LogoutMethod    string   `json:"logout_method,omitempty"`
	MailMethod      string   `json:"mail_method,omitempty"`
	Whitelist       []string `json:"whitelist,omitempty"`
	Preserve        []string `json:"preserve,omitempty"`
	RegWhitelist    []string `json:"reg_whitelist,omitempty"` // extra register whitelist fields
	MailGo          bool     `json:"mail_go,omitempty"`       // library starts mail goroutines
	Err500          bool     `json:"err500,omitempty"`
	OneTimeTOTP     bool     `json:"onetime_totp,omitempty"`
	Middleware      string   `json:"mw,omitempty"` // "remember" | "expire" | ""
	ModuleList      bool     `json:"module_list,omitempty"`
	HTTPS           bool     `json:"https,omitempty"`
	Providers       []string `json:"providers,omitempty"`
	LegacyRedirect  bool     `json:"legacy_redirect,omitempty"`   // Modules.RoutesRedirectOnUnauthed=true instead of ResponseOnUnauthed (module routes only)
	NoRememberStore bool     `json:"no_remember_store,omitempty"` // the application's storer does not implement authboss.RememberingServerStorer (only honoured without the remember module)
	NoArbitraryUser bool     `json:"no_arbitrary_user,omitempty"` // the application's user type does not implement authboss.ArbitraryUser
	PlainRegValues  bool     `json:"plain_reg_values,omitempty"`  // the application's body reader returns register values that implement UserValuer only (no ArbitraryValuer)
	WriterWrap      string   `json:"writer_wrap,omitempty"`       // an application middleware right behind LoadClientStateMiddleware wraps the response writer (compression, metrics): "underlying" exposes it through UnderlyingResponseWriter(), "unwrap" through Unwrap() only; "controller": no wrapper, the middleware sets a write deadline through http.ResponseController
	App2FAHook      bool     `json:"app_2fa_hook,omitempty"`      // the application hooks After(EventTwoFactorAdded) while configuring authboss (before the 2FA Setup calls) and answers the request itself (a "2FA is on now" page)
	ExpireOutside   bool     `json:"expire_outside,omitempty"`    // with Middleware "remember": the application also put expire.Middleware in front of it (the expire docs advise against the pair; what each promises on its own must still hold where they do not contradict each other - C10 uses it)
	AppAuthFailHook bool     `json:"app_authfail_hook,omitempty"` // the application hooks After(EventAuthFail) while configuring authboss (before Init, so ahead of the modules' own listeners) and answers the failed attempt itself
	CustomHasher    bool     `json:"custom_hasher,omitempty"`     // Core.Hasher is the application's own (salted SHA-256, "$ssha256$salt$digest"), not bcrypt
	StoreZoneH      int      `json:"store_zone_h,omitempty"`      // the storer hands instants back in a fixed zone this many hours off UTC (a database driver's session time zone); 0 = UTC
	NumericIDs      bool     `json:"numeric_ids,omitempty"`       // with StockDetails: the provider's user-info endpoint sends all-digit ids as bare JSON numbers
	ProviderParams  bool     `json:"provider_params,omitempty"`   // the providers' OAuth2Provider.AdditionalParams is set (access_type=offline), as the sample configuration for Google does
	StockDetails    bool     `json:"stock_details,omitempty"`     // providers use the library's own GoogleUserDetails / FacebookUserDetails (the in-process provider answers their user-info endpoints)
	NoCookieStore   bool     `json:"no_cookie_store,omitempty"`   // Storage.CookieState left nil (documented as needed for remember-me only)
	Localizer       string   `json:"localizer,omitempty"`         // "untranslated": a Localizer whose catalog has no entry for the request's language (answers "" as its contract says; the library falls back to the default texts)
	ExtraRulePages  []string `json:"extra_rule_pages,omitempty"`  // the application appends a validation rule of its own (for a field nobody is required to send) to these pages' rulesets
	UpstreamLookup  int      `json:"upstream_lookup,omitempty"`   // an application middleware in front of expire/remember that looks the user up (request log, data injector): 1 CurrentUser, 2 LoadCurrentUser
	MiddlewareEarly bool     `json:"middleware_early,omitempty"`  // expire/remember Middleware(ab) constructed before the instance is configured, applied afterwards
	NilEmptyState   bool     `json:"nil_empty_state,omitempty"`   // the session store answers (nil, nil) for a browser without session values (LoadClientState supports that)
	SetupsFirst     bool     `json:"setups_first,omitempty"`      // the 2FA / expire Setup() calls run before ab.Init()
	Mailer          string   `json:"mailer,omitempty"`            // "" harness mailbox | "log" defaults.LogMailer | "smtp" defaults.SMTPMailer against a loopback server
	ShippedLog      bool     `json:"shipped_logger,omitempty"`    // defaults.Logger instead of the capturing logger

	Accounts []AccountSpec `json:"accounts"`
	Browsers int           `json:"browsers"`
}

func (c Config) Has(mod string) bool {
	for _, m := range c.Modules {
		if m == mod {
			return true
		}
	}
	return false
}
func (c Config) HasSetup(s string) bool {
	for _, m := range c.Setups {
		if m == s {
			return true
		}
	}
	return false
}

// Record is what handlers and probes note down during one request.
type Record struct {
	HandlerRan bool
	HandlerErr error
	// CallsBeforeHandler: how many backend calls the request had made when the module handler
	// started (middlewares in front of it make calls too)
	CallsBeforeHandler int

	ProbeRan     bool
	ProbeName    string
	ProbeUID     string
	ProbeUserOK  bool
	ProbeFull    bool
	Probe2FA     bool
	ProbeSession map[string]string

	InFlight int
}

// OAuthIdentity is what the fake provider reports for an authorisation code.
type OAuthIdentity struct {
	UID   string
	Email string
	// Fail: "" ok, "exchange" token endpoint refuses, "details" FindUserDetails fails.
	Fail string
}

// Seeded holds the ground truth created when seeding accounts.
type Seeded struct {
	OTPs       []string
	Recovery   []string
	TOTPSecret string
}

// World is one configured application instance plus everything around it.
type World struct {
	Cfg     Config
	AB      *authboss.Authboss
	B       *Backend
	Store   *Store
	Jars    []*Jar
	Mail    *Mailbox
	SMS     *SMSOutbox
	Log     *LogCapture
	Handler http.Handler
	Lock    *lock.Lock
	Confirm *confirm.Confirm
	Seeded  []Seeded
	VClock  time.Duration

	OAuthCodes map[string]OAuthIdentity

	// shipped components (C20)
	LogBuf  *SyncBuffer
	MailBuf *SyncBuffer
	SMTP    *FakeSMTP

	mu                         sync.Mutex
	inflight                   int
	MaxInflight                int
	Concurrent                 bool // requests are issued from several goroutines (C20)
	server                     *httptest.Server
	smtpBase                   int
	earlyExpire, earlyRemember func(http.Handler) http.Handler
}

var (
	origRand  = crand.Reader
	randMu    sync.Mutex
	bcryptMu  sync.Mutex
	hashCache = map[string]string{}
)

type seededReader struct {
	mu    sync.Mutex
	state [32]byte
	buf   []byte
	ctr   uint64
}

func (s *seededReader) Read(p []byte) (int, error) {
	s.mu.Lock()
	defer s.mu.Unlock()
	n := 0
	for n < len(p) {
		if len(s.buf) == 0 {
			var in [40]byte
			copy(in[:], s.state[:])
			binary.LittleEndian.PutUint64(in[32:], s.ctr)
			s.ctr++
			h := sha256.Sum256(in[:])
			s.buf = h[:]
		}
		c := copy(p[n:], s.buf)
		s.buf = s.buf[c:]
		n += c
	}
	return n, nil
}

// SetRand makes crypto/rand.Reader a deterministic stream derived from seed.
func SetRand(seed uint64) {
	var st [32]byte
	binary.LittleEndian.PutUint64(st[:], seed)
	copy(st[8:], "authboss-verif-stream")
	crand.Reader = &seededReader{state: st}
}

// RestoreRand puts the system source back.
func RestoreRand() { crand.Reader = origRand }

// CheapHash is a bcrypt MinCost hash of pw, cached per process and computed
// with the system random source so the case's seeded stream is not consumed.
func CheapHash(pw string) string {
	bcryptMu.Lock()
	defer bcryptMu.Unlock()
	if h, ok := hashCache[pw]; ok {
		return h
	}
	cur := crand.Reader
	crand.Reader = origRand
	h, err := bcrypt.GenerateFromPassword([]byte(pw), bcrypt.MinCost)
	crand.Reader = cur
	if err != nil {
		panic(err)
	}
	hashCache[pw] = string(h)
	return string(h)
}

// OTPHash is how the otp module stores a one-time password.
func OTPHash(otp string) string {
	sum := sha512.Sum512([]byte(otp))
	return base64.StdEncoding.EncodeToString(sum[:])
}

func derive(seed uint64, label string, n int) []byte {
	var out []byte
	for i := 0; len(out) < n; i++ {
		h := sha256.Sum256([]byte(fmt.Sprintf("%d|%s|%d", seed, label, i)))
		out = append(out, h[:]...)
	}
	return out[:n]
}

const recAlphabet = "abcdefghijkmnopqrstuvwxyz0123456789"

func deriveRecoveryCode(seed uint64, acct, i int) string {
	b := derive(seed, fmt.Sprintf("rec-%d-%d", acct, i), 10)
	var sb strings.Builder
	for j := 0; j < 10; j++ {
		if j == 5 {
			sb.WriteByte('-')
		}
		sb.WriteByte(recAlphabet[int(b[j])%len(recAlphabet)])
	}
	return sb.String()
}

func deriveOTP(seed uint64, acct, i int) string {
	s := derive(seed, fmt.Sprintf("otp-%d-%d", acct, i), 16)
	return fmt.Sprintf("%x-%x-%x-%x", s[0:4], s[4:8], s[8:12], s[12:16])
}

// AppKeys are session keys the application itself may set via /set.
// Two of them merely *contain* the name of a library key ("uid", "twofactor"):
// a whitelist is a list of exact names.
var AppKeys = []string{"app_theme", "app_cart", "app_lang", "visitor_uuid", "twofactor_hint",
	// namespaced / non-ASCII key names are ordinary session keys too (no comma: the whitelist travels comma-separated)
	"app:locale", "shop/currency", "sprache_für_ui"}

// ProviderHost is the fake OAuth2 provider's host.
const ProviderHost = "prov.example"

// NewWorld builds an application the way the README prescribes.
func NewWorld(cfg Config) (w *World, err error) {
	defer func() {
		if r := recover(); r != nil {
			err = fmt.Errorf("world construction panicked: %v", r)
		}
	}()
	SetRand(cfg.Seed)
	w = &World{Cfg: cfg, B: &Backend{}, OAuthCodes: map[string]OAuthIdentity{}}
	w.Store = NewStore(w.B)
	w.Store.OneTime = cfg.OneTimeTOTP
	w.Store.NoArb = cfg.NoArbitraryUser
	if cfg.StoreZoneH != 0 {
		w.Store.Zone = time.FixedZone(fmt.Sprintf("UTC%+d", cfg.StoreZoneH), cfg.StoreZoneH*3600)
	}
	w.Store.EmailPID = !cfg.Username
	w.Mail = &Mailbox{B: w.B}
	w.SMS = &SMSOutbox{B: w.B}
	w.Log = &LogCapture{}
	if cfg.Browsers < 1 {
		cfg.Browsers = 1
		w.Cfg.Browsers = 1
	}
	for i := 0; i < cfg.Browsers; i++ {
		w.Jars = append(w.Jars, NewJar())
	}

	ab := authboss.New()
	w.AB = ab
	if cfg.MiddlewareEarly {
		// the constructors are called before the instance is configured (a package-level middleware
		// list, router.Use(...) at start-up) and applied to the handler later
		w.earlyExpire, w.earlyRemember = expire.Middleware(ab), remember.Middleware(ab)
	}
	ab.Config.Paths.Mount = cfg.Mount
	if cfg.HTTPS {
		ab.Config.Paths.RootURL = "https://site.example"
	} else {
		ab.Config.Paths.RootURL = "http://site.example"
	}
	ab.Config.Paths.AuthLoginOK = "/ok/login"
	ab.Config.Paths.ConfirmOK = "/ok/confirm"
	ab.Config.Paths.ConfirmNotOK = "/notok/confirm"
	ab.Config.Paths.LockNotOK = "/notok/lock"
	ab.Config.Paths.LogoutOK = "/ok/logout"
	ab.Config.Paths.OAuth2LoginOK = "/ok/oauth2"
	ab.Config.Paths.OAuth2LoginNotOK = "/notok/oauth2"
	ab.Config.Paths.RecoverOK = "/ok/recover"
	ab.Config.Paths.RegisterOK = "/ok/register"
	ab.Config.Paths.NotAuthorized = "/notok/auth"
	ab.Config.Paths.TwoFactorEmailAuthNotOK = "/notok/2fa-email"

	ab.Config.Modules.BCryptCost = bcrypt.MinCost
	if cfg.LockAfterZero {
		ab.Config.Modules.LockAfter = 0
	} else if cfg.LockAfter > 0 {
		ab.Config.Modules.LockAfter = cfg.LockAfter
	}
	if cfg.LockWindowS > 0 {
		ab.Config.Modules.LockWindow = time.Duration(cfg.LockWindowS) * time.Second
	}
	if cfg.LockDurS > 0 {
		ab.Config.Modules.LockDuration = time.Duration(cfg.LockDurS) * time.Second
	}
	if cfg.ExpireS > 0 {
		ab.Config.Modules.ExpireAfter = time.Duration(cfg.ExpireS) * time.Second
	}
	if cfg.RecoverDurS > 0 {
		ab.Config.Modules.RecoverTokenDuration = time.Duration(cfg.RecoverDurS) * time.Second
	}
	ab.Config.Modules.RecoverLoginAfterRecovery = cfg.RecoverLogin
	ab.Config.Modules.TwoFactorEmailAuthRequired = cfg.EmailAuth
	if cfg.LogoutMethod != "" {
		ab.Config.Modules.LogoutMethod = cfg.LogoutMethod
	}
	if cfg.MailMethod != "" {
		ab.Config.Modules.MailRouteMethod = cfg.MailMethod
	}
	ab.Config.Modules.MailNoGoroutine = !cfg.MailGo
	ab.Config.Modules.TOTP2FAIssuer = "VerifIssuer"
	ab.Config.Modules.ResponseOnUnauthed = authboss.MWRespondOnFailure(cfg.Refusal)
	if cfg.LegacyRedirect {
		// the deprecated spelling of "redirect unauthenticated users": only honoured when the new field is unset
		ab.Config.Modules.ResponseOnUnauthed = 0
		ab.Config.Modules.RoutesRedirectOnUnauthed = true
	}
	ab.Config.Modules.RegisterPreserveFields = append([]string(nil), cfg.Preserve...)
	ab.Config.Mail.From = "noreply@site.example"
	ab.Config.Storage.SessionStateWhitelistKeys = append([]string(nil), cfg.Whitelist...)

	resolve := func(r *http.Request) *Jar {
		if j, ok := r.Context().Value(ctxJar).(*Jar); ok {
			return j
		}
		if h := r.Header.Get("X-Browser"); h != "" {
			var n int
			if _, err := fmt.Sscanf(h, "%d", &n); err == nil && n >= 0 && n < len(w.Jars) {
				return w.Jars[n]
			}
		}
		return nil
	}
	ab.Config.Storage.Server = w.Store
	if cfg.NoRememberStore && !cfg.Has("remember") && cfg.Middleware != "remember" {
		ab.Config.Storage.Server = storeNoRemember{w.Store}
	}
	ab.Config.Storage.SessionState = StateRW{Session: true, B: w.B, Resolve: resolve, NilWhenEmpty: cfg.NilEmptyState}
	if !cfg.NoCookieStore || cfg.Middleware == "remember" {
		ab.Config.Storage.CookieState = StateRW{Session: false, B: w.B, Resolve: resolve}
	}

	ab.Config.Core.ViewRenderer = FaultRenderer{Inner: defaults.JSONRenderer{}, B: w.B, Name: "Render"}
	ab.Config.Core.MailRenderer = FaultRenderer{Inner: defaults.JSONRenderer{}, B: w.B, Name: "MailRender"}
	defaults.SetCore(&ab.Config, cfg.JSON, cfg.Username)
	ab.Config.Core.Logger = w.Log
	ab.Config.Core.Mailer = w.Mail
	if cfg.ShippedLog {
		w.LogBuf = &SyncBuffer{}
		ab.Config.Core.Logger = defaults.NewLogger(w.LogBuf)
	}
	switch cfg.Mailer {
	case "log":
		w.MailBuf = &SyncBuffer{}
		ab.Config.Core.Mailer = defaults.NewLogMailer(w.MailBuf)
	case "smtp":
		srv, err := SharedSMTP()
		if err != nil {
			return nil, err
		}
		w.SMTP = srv
		w.smtpBase = len(srv.Snapshot())
		ab.Config.Core.Mailer = defaults.NewSMTPMailer(srv.Addr(), nil)
	}
	ab.Config.Core.ErrorHandler = errWrap{write500: cfg.Err500, log: ab.Config.Core.Logger, b: w.B}
	br := ab.Config.Core.BodyReader.(*defaults.HTTPBodyReader)
	if len(cfg.RegWhitelist) > 0 {
		br.Whitelist["register"] = append(br.Whitelist["register"], cfg.RegWhitelist...)
	}
	if cfg.Localizer == "untranslated" {
		ab.Config.Core.Localizer = untranslated{}
	}
	for _, page := range cfg.ExtraRulePages {
		br.Rulesets[page] = append(br.Rulesets[page], defaults.Rules{FieldName: "app_note", MaxLength: 500})
	}
	ab.Config.Core.BodyReader = otpAdapter{inner: br, plainReg: cfg.PlainRegValues}
	ab.Config.Core.Hasher = FaultHasher{Inner: authboss.NewBCryptHasher(bcrypt.MinCost), B: w.B}
	if cfg.CustomHasher {
		ab.Config.Core.Hasher = FaultHasher{Inner: SSHA256{}, B: w.B}
	}

	if len(cfg.Providers) > 0 {
		ab.Config.Modules.OAuth2Providers = map[string]authboss.OAuth2Provider{}
		for _, p := range cfg.Providers {
			ab.Config.Modules.OAuth2Providers[p] = authboss.OAuth2Provider{
				OAuth2Config: &oauth2.Config{
					ClientID:     "cid-" + p,
					ClientSecret: "csecret-" + p,
					Endpoint: oauth2.Endpoint{
						AuthURL:   "https://" + ProviderHost + "/" + p + "/auth",
						TokenURL:  "https://" + ProviderHost + "/" + p + "/token",
						AuthStyle: oauth2.AuthStyleInParams,
					},
					Scopes: []string{"profile"},
				},
				FindUserDetails: w.findUserDetails,
			}
			if cfg.ProviderParams {
				pr := ab.Config.Modules.OAuth2Providers[p]
				pr.AdditionalParams = url.Values{"access_type": {"offline"}}
				ab.Config.Modules.OAuth2Providers[p] = pr
			}
			if cfg.StockDetails {
				pr := ab.Config.Modules.OAuth2Providers[p]
				if p == "fb" {
					pr.FindUserDetails = abo2.FacebookUserDetails
				} else {
					pr.FindUserDetails = abo2.GoogleUserDetails
				}
				ab.Config.Modules.OAuth2Providers[p] = pr
			}
		}
	}

	setups := func() error {
		for _, s := range cfg.Setups {
			var err error
			switch s {
			case "expire":
				err = expire.Setup(ab)
			case "totp":
				err = (&totp2fa.TOTP{Authboss: ab}).Setup()
			case "sms":
				err = (&sms2fa.SMS{Authboss: ab, Sender: w.SMS}).Setup()
			case "recovery":
				err = (&twofactor.Recovery{Authboss: ab}).Setup()
			default:
				err = fmt.Errorf("unknown setup %q", s)
			}
			if err != nil {
				return err
			}
		}
		return nil
	}
	// The documentation does not order the Setup() calls relative to Init():
	// both orders are valid configurations.
	if cfg.App2FAHook {
		ab.Events.After(authboss.EventTwoFactorAdded, func(rw http.ResponseWriter, r *http.Request, handled bool) (bool, error) {
			if handled {
				return false, nil
			}
			ro := authboss.RedirectOptions{Code: http.StatusTemporaryRedirect, RedirectPath: "/ok/2fa-added", Success: "Two-factor authentication is on"}
			return true, ab.Config.Core.Redirector.Redirect(rw, r, ro)
		})
	}
	if cfg.AppAuthFailHook {
		ab.Events.After(authboss.EventAuthFail, func(rw http.ResponseWriter, r *http.Request, handled bool) (bool, error) {
			if handled {
				return false, nil
			}
			ro := authboss.RedirectOptions{Code: http.StatusTemporaryRedirect, RedirectPath: "/notok/bad-credentials", Failure: "That did not work"}
			return true, ab.Config.Core.Redirector.Redirect(rw, r, ro)
		})
	}
	if cfg.SetupsFirst {
		if err := setups(); err != nil {
			return nil, err
		}
	}
	if err := ab.Init(cfg.Modules...); err != nil {
		return nil, err
	}
	if !cfg.SetupsFirst {
		if err := setups(); err != nil {
			return nil, err
		}
	}
	w.Lock = &lock.Lock{Authboss: ab}
	w.Confirm = &confirm.Confirm{Authboss: ab}

	w.seedAccounts()
	w.buildHandler()
	return w, nil
}

// Response-writer wrappers an application may put between LoadClientStateMiddleware and the
// authboss middlewares; the library documents both ways of exposing the wrapped writer.
type underlyingOnly struct{ http.ResponseWriter }

func (u underlyingOnly) UnderlyingResponseWriter() http.ResponseWriter { return u.ResponseWriter }

type unwrapOnly struct{ http.ResponseWriter }

func (u unwrapOnly) Unwrap() http.ResponseWriter { return u.ResponseWriter }

// storeNoRemember is the same database for an application that never wrote the remember-token
// methods: they are shadowed by methods of another signature, so the library's assertion to
// authboss.RememberingServerStorer fails.
type storeNoRemember struct{ *Store }

func (storeNoRemember) AddRememberToken(struct{})  {}
func (storeNoRemember) DelRememberTokens(struct{}) {}
func (storeNoRemember) UseRememberToken(struct{})  {}

// SSHA256 is an application-supplied password hasher (the library documents Core.Hasher as pluggable):
// "$ssha256$<salt hex>$<sha256(salt || password) hex>". Every byte of the password counts, unlike bcrypt.
type SSHA256 struct{}

func (SSHA256) GenerateHash(pw string) (string, error) {
	salt := make([]byte, 8)
	if _, err := crand.Read(salt); err != nil {
		return "", err
	}
	sum := sha256.Sum256(append(append([]byte(nil), salt...), pw...))
	return fmt.Sprintf("$ssha256$%x$%x", salt, sum), nil
}

func (SSHA256) CompareHashAndPassword(hash, pw string) error {
	if !VerifySSHA256(hash, pw) {
		return fmt.Errorf("ssha256: hash and password do not match")
	}
	return nil
}

// VerifySSHA256 recomputes the digest (used by the monitors as well).
func VerifySSHA256(hash, pw string) bool {
	parts := strings.Split(hash, "$")
	if len(parts) != 4 || parts[1] != "ssha256" {
		return false
	}
	var salt []byte
	if _, err := fmt.Sscanf(parts[2], "%x", &salt); err != nil {
		return false
	}
	sum := sha256.Sum256(append(append([]byte(nil), salt...), pw...))
	return fmt.Sprintf("%x", sum) == parts[3]
}

// untranslated is a Localizer without a translation for anything the visitor's language needs.
type untranslated struct{}

func (untranslated) Localizef(ctx context.Context, key authboss.LocalizationKey, args ...any) string {
	return ""
}

type errWrap struct {
	write500 bool
	log      authboss.Logger
	b        *Backend
}

func (e errWrap) Wrap(h func(w http.ResponseWriter, r *http.Request) error) http.Handler {
	rec := func(w http.ResponseWriter, r *http.Request) error {
		rc, _ := r.Context().Value(ctxProbe).(*Record)
		if rc != nil && e.b != nil {
			rc.CallsBeforeHandler = len(e.b.Snapshot())
		}
		err := h(w, r)
		if rc != nil {
			rc.HandlerRan = true
			rc.HandlerErr = err
		}
		return err
	}
	if !e.write500 {
		return defaults.NewErrorHandler(e.log).Wrap(rec)
	}
	return http.HandlerFunc(func(w http.ResponseWriter, r *http.Request) {
		err := rec(w, r)
		if err == nil {
			return
		}
		e.log.Error(fmt.Sprintf("request error from (%s) %s: %+v", r.RemoteAddr, r.URL.EscapedPath(), err)) // same line as defaults.ErrorHandler
		w.Header().Set("Content-Type", "application/json")
		w.WriteHeader(http.StatusInternalServerError)
		_, _ = io.WriteString(w, `{"status":"failure","error":"internal error"}`)
	})
}

// otpAdapter maps the otp module's page name onto the login page the shipped
// body reader knows (the shipped reader rejects "otplogin").
type otpAdapter struct {
	inner    authboss.BodyReader
	plainReg bool
}

func (o otpAdapter) Read(page string, r *http.Request) (authboss.Validator, error) {
	if page == "otplogin" {
		page = "login"
	}
	v, err := o.inner.Read(page, r)
	if err == nil && o.plainReg && page == "register" {
		if uv, ok := v.(authboss.UserValuer); ok {
			return plainUserValues{uv}, nil
		}
	}
	return v, err
}

// plainUserValues exposes exactly authboss.UserValuer: an application reader without arbitrary values.
type plainUserValues struct{ inner authboss.UserValuer }

func (p plainUserValues) Validate() []error   { return p.inner.Validate() }
func (p plainUserValues) GetPID() string      { return p.inner.GetPID() }
func (p plainUserValues) GetPassword() string { return p.inner.GetPassword() }

func (w *World) findUserDetails(ctx context.Context, cfg oauth2.Config, tok *oauth2.Token) (map[string]string, error) {
	code := strings.TrimPrefix(tok.AccessToken, "at:")
	w.mu.Lock()
	id, ok := w.OAuthCodes[code]
	w.mu.Unlock()
	if !ok || id.Fail == "details" {
		return nil, fmt.Errorf("provider refused details")
	}
	return map[string]string{"uid": id.UID, "email": id.Email}, nil
}

// providerRT is the in-process OAuth2 token endpoint.
type providerRT struct{ w *World }

func (p providerRT) RoundTrip(r *http.Request) (*http.Response, error) {
	if r.URL.Host == "www.googleapis.com" || r.URL.Host == "graph.facebook.com" {
		// the user-info endpoints the library's stock FindUserDetails functions ask
		code := strings.TrimPrefix(strings.TrimPrefix(r.Header.Get("Authorization"), "Bearer "), "at:")
		p.w.mu.Lock()
		id, ok := p.w.OAuthCodes[code]
		p.w.mu.Unlock()
		if !ok || id.Fail == "details" {
			return nil, fmt.Errorf("provider refused details")
		}
		b, _ := json.Marshal(map[string]string{"id": id.UID, "email": id.Email, "name": "N " + id.UID})
		if p.w.Cfg.NumericIDs && len(id.UID) > 0 && strings.Trim(id.UID, "0123456789") == "" && id.UID[0] != '0' {
			// a provider that encodes numeric ids as JSON numbers (digits kept exactly, as JSON allows)
			b = []byte(fmt.Sprintf(`{"id": %s, "email": %q, "name": %q}`, id.UID, id.Email, "N "+id.UID))
		}
		return &http.Response{StatusCode: 200, Status: "200", Header: http.Header{"Content-Type": []string{"application/json"}},
			Body: io.NopCloser(bytes.NewReader(b)), Request: r, ProtoMajor: 1, ProtoMinor: 1}, nil
	}
	var body []byte
	if r.Body != nil {
		body, _ = io.ReadAll(r.Body)
	}
	vals, _ := url.ParseQuery(string(body))
	code := vals.Get("code")
	p.w.mu.Lock()
	id, ok := p.w.OAuthCodes[code]
	p.w.mu.Unlock()
	mk := func(status int, b string) *http.Response {
		return &http.Response{
			StatusCode: status, Status: fmt.Sprintf("%d", status),
			Header:  http.Header{"Content-Type": []string{"application/json"}},
			Body:    io.NopCloser(strings.NewReader(b)),
			Request: r, ProtoMajor: 1, ProtoMinor: 1,
		}
	}
	if r.URL.Host != ProviderHost || !ok || id.Fail == "exchange" {
		return mk(400, `{"error":"invalid_grant"}`), nil
	}
	tok, _ := json.Marshal(map[string]interface{}{"access_token": "at:" + code, "token_type": "bearer", "expires_in": 3600})
	return mk(200, string(tok)), nil
}

func (w *World) seedAccounts() {
	for i, a := range w.Cfg.Accounts {
		u := &User{PID: a.PID, Email: a.Email, Password: CheapHash(a.Password), Confirmed: !a.Unconfirmed,
			SecondaryEmails: append([]string(nil), a.Secondary...), SMSSeed: a.PhoneSeed}
		if u.Email == "" {
			u.Email = a.PID
		}
		if w.Cfg.CustomHasher {
			u.Password, _ = SSHA256{}.GenerateHash(a.Password)
		}
		switch a.HashKind {
		case "empty": // created through OAuth2 / invited: no password at all
			u.Password = ""
		case "md5": // imported with a legacy hash
			u.Password = "5f4dcc3b5aa765d61d8327deb882cf99"
		case "sha256crypt":
			u.Password = "$5$rounds=5000$saltsalt$5B8vYYiY.CVt1RlTTf8KbXBH3hsxY/GNooZaBBGWEc5"
		case "trunc":
			u.Password = u.Password[:20]
		}
		var sd Seeded
		if a.Locked {
			u.Locked = time.Now().UTC().Add(w.AB.Config.Modules.LockDuration)
			u.AttemptCount = w.AB.Config.Modules.LockAfter
			u.LastAttempt = time.Now().UTC()
		}
		var hashes []string
		for k := 0; k < a.OTPs; k++ {
			o := deriveOTP(w.Cfg.Seed, i, k)
			sd.OTPs = append(sd.OTPs, o)
			hashes = append(hashes, OTPHash(o))
		}
		u.OTPs = strings.Join(hashes, ",")
		if a.TOTP {
			sd.TOTPSecret = base32.StdEncoding.WithPadding(base32.NoPadding).EncodeToString(derive(w.Cfg.Seed, fmt.Sprintf("totp-%d", i), 20))
			u.TOTPSecretKey = sd.TOTPSecret
		}
		u.SMSPhone = a.Phone
		var rh []string
		for k := 0; k < a.Recovery; k++ {
			c := deriveRecoveryCode(w.Cfg.Seed, i, k)
			sd.Recovery = append(sd.Recovery, c)
			rh = append(rh, CheapHash(c))
		}
		u.RecoveryCodes = strings.Join(rh, ",")
		w.Store.Seed(u)
		for k := 0; k < a.RmTokens; k++ {
			sum := sha512.Sum512(derive(w.Cfg.Seed, fmt.Sprintf("rmtok-%d-%d", i, k), 32))
			w.Store.SeedToken(u.PID, base64.StdEncoding.EncodeToString(sum[:]))
		}
		w.Seeded = append(w.Seeded, sd)
	}
}

// Path prefixes an authboss route with the mount point.
func (w *World) Path(p string) string { return w.Cfg.Mount + p }

func (w *World) buildHandler() {
	ab := w.AB
	probe := func(name string) http.Handler {
		return http.HandlerFunc(func(rw http.ResponseWriter, r *http.Request) {
			if rec, ok := r.Context().Value(ctxProbe).(*Record); ok && rec != nil {
				rec.ProbeRan = true
				rec.ProbeName = name
				rec.ProbeUID, _ = ab.CurrentUserID(r)
				u, err := ab.CurrentUser(r)
				rec.ProbeUserOK = err == nil && u != nil
				rec.ProbeFull = authboss.IsFullyAuthed(r)
				rec.Probe2FA = authboss.IsTwoFactored(r)
				rec.ProbeSession = map[string]string{}
				for _, k := range AllSessionKeys {
					if v, ok := authboss.GetSession(r, k); ok {
						rec.ProbeSession[k] = v
					}
				}
			}
			rw.Header().Set("Content-Type", "text/plain")
			rw.WriteHeader(200)
			_, _ = io.WriteString(rw, "probe "+name)
		})
	}
	resp := authboss.MWRespondOnFailure(w.Cfg.Refusal)
	routes := map[string]http.Handler{
		"/open":      probe("open"),
		"/p/none":    authboss.Middleware2(ab, authboss.RequireNone, resp)(probe("none")),
		"/p/full":    authboss.Middleware2(ab, authboss.RequireFullAuth, resp)(probe("full")),
		"/p/2fa":     authboss.Middleware2(ab, authboss.Require2FA, resp)(probe("2fa")),
		"/p/full2fa": authboss.Middleware2(ab, authboss.RequireFullAuth|authboss.Require2FA, resp)(probe("full2fa")),
		"/p/lock":    authboss.Middleware2(ab, authboss.RequireNone, resp)(lock.Middleware(ab)(probe("lock"))),
		"/p/confirm": authboss.Middleware2(ab, authboss.RequireNone, resp)(confirm.Middleware(ab)(probe("confirm"))),
		// the same two middlewares as the first thing that looks the user up (the access middleware behind them)
		"/q/lock":    lock.Middleware(ab)(authboss.Middleware2(ab, authboss.RequireNone, resp)(probe("lock"))),
		"/q/confirm": confirm.Middleware(ab)(authboss.Middleware2(ab, authboss.RequireNone, resp)(probe("confirm"))),
		// the application's own sign-out, built from the documented helpers (not the logout module)
		"/signout": http.HandlerFunc(func(rw http.ResponseWriter, r *http.Request) {
			authboss.DelAllSession(rw, ab.Config.Storage.SessionStateWhitelistKeys)
			authboss.DelKnownCookie(rw)
			rw.WriteHeader(204)
		}),
		"/set": http.HandlerFunc(func(rw http.ResponseWriter, r *http.Request) {
			k, v := r.URL.Query().Get("k"), r.URL.Query().Get("v")
			for _, ak := range AppKeys {
				if ak == k {
					authboss.PutSession(rw, k, v)
				}
			}
			rw.WriteHeader(204)
		}),
	}
	mount := w.Cfg.Mount
	var app http.Handler = http.HandlerFunc(func(rw http.ResponseWriter, r *http.Request) {
		if h, ok := routes[r.URL.Path]; ok {
			h.ServeHTTP(rw, r)
			return
		}
		if strings.HasPrefix(r.URL.Path, "/p/") {
			// arbitrary protected resource paths used by C08-style visits
			authboss.Middleware2(ab, authboss.RequireNone, resp)(probe("any")).ServeHTTP(rw, r)
			return
		}
		if mount == "" {
			ab.Config.Core.Router.ServeHTTP(rw, r)
			return
		}
		if strings.HasPrefix(r.URL.Path, mount+"/") {
			http.StripPrefix(mount, ab.Config.Core.Router).ServeHTTP(rw, r)
			return
		}
		http.NotFound(rw, r)
	})
	if w.Cfg.ModuleList {
		app = authboss.ModuleListMiddleware(ab)(app)
	}
	switch w.Cfg.Middleware {
	case "remember":
		if w.earlyRemember != nil {
			app = w.earlyRemember(app)
		} else {
			app = remember.Middleware(ab)(app)
		}
	case "expire":
		if w.earlyExpire != nil {
			app = w.earlyExpire(app)
		} else {
			app = expire.Middleware(ab)(app)
		}
	}
	if w.Cfg.Middleware == "remember" && w.Cfg.ExpireOutside {
		app = expire.Middleware(ab)(app)
	}
	if lk := w.Cfg.UpstreamLookup; lk != 0 {
		next := app
		app = http.HandlerFunc(func(rw http.ResponseWriter, r *http.Request) {
			var err error
			if lk == 1 {
				_, err = ab.CurrentUser(r)
			} else {
				_, err = ab.LoadCurrentUser(&r)
			}
			if err != nil && err != authboss.ErrUserNotFound {
				// the application answers its own failures the way it answers the library's
				if rc, _ := r.Context().Value(ctxProbe).(*Record); rc != nil {
					rc.HandlerErr = err
				}
				ab.Config.Core.Logger.Error(fmt.Sprintf("request error from (%s) %s: %+v", r.RemoteAddr, r.URL.EscapedPath(), err))
				if w.Cfg.Err500 {
					rw.Header().Set("Content-Type", "application/json")
					rw.WriteHeader(http.StatusInternalServerError)
					_, _ = io.WriteString(rw, `{"status":"failure","error":"internal error"}`)
				}
				return
			}
			next.ServeHTTP(rw, r)
		})
	}
	if w.Cfg.WriterWrap != "" {
		next := app
		kind := w.Cfg.WriterWrap
		app = http.HandlerFunc(func(rw http.ResponseWriter, r *http.Request) {
			switch kind {
			case "unwrap":
				next.ServeHTTP(unwrapOnly{rw}, r)
			case "controller":
				// a per-request write deadline through the standard library's ResponseController, which walks the
				// writers' Unwrap() methods down to the connection (the recorder has none: the error is ignored, as apps do)
				// (on the application's own pages only; the authboss routes keep the server's default)
				if strings.HasPrefix(r.URL.Path, "/p/") || strings.HasPrefix(r.URL.Path, "/q/") || r.URL.Path == "/open" {
					_ = http.NewResponseController(rw).SetWriteDeadline(time.Now().Add(time.Minute))
				}
				next.ServeHTTP(rw, r)
			default:
				next.ServeHTTP(underlyingOnly{rw}, r)
			}
		})
	}
	inner := app
	counted := http.HandlerFunc(func(rw http.ResponseWriter, r *http.Request) {
		w.mu.Lock()
		w.inflight++
		n := w.inflight
		if n > w.MaxInflight {
			w.MaxInflight = n
		}
		w.mu.Unlock()
		if rec, ok := r.Context().Value(ctxProbe).(*Record); ok && rec != nil && n > rec.InFlight {
			rec.InFlight = n
		}
		defer func() { w.mu.Lock(); w.inflight--; w.mu.Unlock() }()
		inner.ServeHTTP(rw, r)
	})
	w.Handler = ab.LoadClientStateMiddleware(counted)
}

// AllSessionKeys is every session key the library or the application uses.
var AllSessionKeys = []string{
	authboss.SessionKey, authboss.SessionHalfAuthKey, authboss.SessionLastAction, authboss.Session2FA,
	authboss.Session2FAAuthToken, authboss.Session2FAAuthed, authboss.SessionOAuth2State, authboss.SessionOAuth2Params,
	authboss.FlashSuccessKey, authboss.FlashErrorKey,
	totp2fa.SessionTOTPSecret, totp2fa.SessionTOTPPendingPID,
	sms2fa.SessionSMSNumber, sms2fa.SessionSMSSecret, "sms_secret_number", sms2fa.SessionSMSLast, sms2fa.SessionSMSPendingPID,
	"twofactor_auth_pid", // authboss.Session2FAAuthPID (literal: trees without the D15 fix lack the constant)
	"app_theme", "app_cart", "app_lang", "visitor_uuid", "twofactor_hint", "app:locale", "shop/currency", "sprache_für_ui",
}

// Req is one client request.
type Req struct {
	Browser  int
	Method   string
	Path     string // full path (use World.Path for authboss routes)
	RawPath  string // optional: exact request-target path bytes (escaped form)
	Query    url.Values
	RawQuery string // used instead of Query when non-empty
	Form     map[string]string
	// FormMulti, when set, is sent instead of Form in form mode (duplicate fields).
	FormMulti url.Values
	RawBody   *string
	// JSONMangle (JSON mode only) spoils the encoded body the way real clients do: "bool" / "num" append a
	// non-string member, "trunc" cuts the body short, "array" wraps it, "dupkey" repeats a member.
	JSONMangle string
	CType      string // overrides the content type
	Fault      FaultPlan
	Headers    map[string]string
}

// Resp is everything observable about the outcome.
type Resp struct {
	Status   int
	Header   http.Header
	Body     []byte
	JSON     map[string]interface{}
	Location string // Location header, else JSON "location"
	Wrote    bool

	SessBefore, SessAfter map[string]string
	CookBefore, CookAfter map[string]string

	Rec   Record
	Panic interface{}
	Hung  bool // the handler did not return within HangAfter
	// Cancelled: the request context was cancelled while the request was being served (plan kind
	// "cancel": the client went away); no backend call failed
	Cancelled bool
	Calls     []string
	Fired     string
	Mails     []Mail
	SMS       []SMS
	Logs      []string
	T0, T1    time.Time
}

// UID returns the session user after the response.
func (r *Resp) UID() string       { return r.SessAfter[authboss.SessionKey] }
func (r *Resp) UIDBefore() string { return r.SessBefore[authboss.SessionKey] }

type recWriter struct {
	*httptest.ResponseRecorder
	wrote bool
	jar   *Jar // the browser this response goes to (a session store that had no state to read still has to write somewhere)
}

// JarOf lets the client-state stores find the browser when ReadState returned no state.
func (r *recWriter) JarOf() *Jar { return r.jar }

func (r *recWriter) WriteHeader(c int) { r.wrote = true; r.ResponseRecorder.WriteHeader(c) }
func (r *recWriter) Write(b []byte) (int, error) {
	r.wrote = true
	return r.ResponseRecorder.Write(b)
}

// BuildRequest constructs the *http.Request for a Req (shared by the
// in-process and the socket paths).
func (w *World) BuildRequest(q Req) *http.Request {
	rq := q.RawQuery
	if rq == "" && len(q.Query) > 0 {
		rq = q.Query.Encode()
	}
	var body io.Reader
	ctype := ""
	switch {
	case q.RawBody != nil:
		body = strings.NewReader(*q.RawBody)
		if w.Cfg.JSON {
			ctype = "application/json"
		} else {
			ctype = "application/x-www-form-urlencoded"
		}
	case w.Cfg.JSON:
		m := q.Form
		if m == nil {
			m = map[string]string{}
		}
		b, _ := json.Marshal(m)
		b = mangleJSON(b, q.JSONMangle)
		body = bytes.NewReader(b)
		ctype = "application/json"
	case q.FormMulti != nil:
		body = strings.NewReader(q.FormMulti.Encode())
		ctype = "application/x-www-form-urlencoded"
	case q.Form != nil:
		v := url.Values{}
		for k, val := range q.Form {
			v.Set(k, val)
		}
		body = strings.NewReader(v.Encode())
		ctype = "application/x-www-form-urlencoded"
	}
	if q.CType != "" {
		ctype = q.CType
	}
	req, err := http.NewRequest(q.Method, "http://site.example/", body)
	if err != nil {
		req, _ = http.NewRequest("GET", "http://site.example/", body)
	}
	req.URL = &url.URL{Scheme: "http", Host: "site.example", Path: q.Path, RawQuery: rq}
	if q.RawPath != "" {
		if u, err := url.ParseRequestURI(q.RawPath); err == nil {
			req.URL.Path = u.Path
			req.URL.RawPath = u.RawPath
		}
	}
	req.RequestURI = ""
	req.RemoteAddr = "192.0.2.1:1234"
	if ctype != "" {
		req.Header.Set("Content-Type", ctype)
	}
	for k, v := range q.Headers {
		req.Header.Set(k, v)
	}
	return req
}

func mangleJSON(b []byte, how string) []byte {
	if how == "" || len(b) < 2 || b[len(b)-1] != '}' {
		return b
	}
	inner := string(b[:len(b)-1])
	sep := ","
	if inner == "{" {
		sep = ""
	}
	switch how {
	case "bool":
		return []byte(inner + sep + `"rm":true}`)
	case "num":
		return []byte(inner + sep + `"code":123456}`)
	case "null":
		return []byte(inner + sep + `"redir":null}`)
	case "trunc":
		return b[:len(b)-1-len(b)/8]
	case "array":
		return []byte("[" + string(b) + "]")
	case "nested":
		return []byte(inner + sep + `"extra":{"a":"b"}}`)
	}
	return b
}

// Do runs one request in-process.
func (w *World) Do(q Req) *Resp {
	jar := w.Jars[q.Browser]
	req := w.BuildRequest(q)
	rec := &Record{}
	ctx := context.WithValue(req.Context(), ctxJar, jar)
	ctx = context.WithValue(ctx, ctxProbe, rec)
	ctx = context.WithValue(ctx, oauth2.HTTPClient, &http.Client{Transport: providerRT{w}})
	// the client may give up while the request is being served (plan kind "cancel")
	ctx, cancel := context.WithCancel(ctx)
	defer cancel()
	req = req.WithContext(ctx)

	out := &Resp{SessBefore: jar.SessionCopy(), CookBefore: jar.CookieCopy()}
	if w.Concurrent {
		return w.doConcurrent(out, jar, req, rec)
	}
	w.B.Cancel = cancel
	nm, ns, nl := w.Mail.Len(), w.SMS.Len(), w.Log.Len()
	w.B.Reset(q.Fault)
	rr := &recWriter{ResponseRecorder: httptest.NewRecorder(), jar: jar}
	base := runtime.NumGoroutine()
	out.T0 = time.Now()
	if !w.serve(out, rr, req) {
		// the handler never came back: nothing of the recorder may be read
		out.T1 = time.Now()
		out.Hung = true
		out.Fired = w.B.Fired
		out.Calls = w.B.Snapshot()
		w.B.Reset(FaultPlan{})
		out.SessAfter, out.CookAfter = out.SessBefore, out.CookBefore
		return out
	}
	out.T1 = time.Now()
	if w.Cfg.MailGo {
		deadline := time.Now().Add(2 * time.Second)
		for runtime.NumGoroutine() > base && time.Now().Before(deadline) {
			time.Sleep(20 * time.Microsecond)
		}
	}
	out.Calls = w.B.Snapshot()
	out.Fired = w.B.Fired
	out.Cancelled = w.B.Cancelled
	w.B.Reset(FaultPlan{})
	out.Status = rr.Code
	out.Wrote = rr.wrote
	out.Header = rr.Header()
	out.Body = rr.Body.Bytes()
	if strings.HasPrefix(out.Header.Get("Content-Type"), "application/json") {
		var m map[string]interface{}
		if json.Unmarshal(out.Body, &m) == nil {
			out.JSON = m
		}
	}
	out.Location = out.Header.Get("Location")
	if out.Location == "" && out.JSON != nil {
		if s, ok := out.JSON["location"].(string); ok {
			out.Location = s
		}
	}
	out.SessAfter, out.CookAfter = jar.SessionCopy(), jar.CookieCopy()
	out.Rec = *rec
	out.Mails = w.Mail.Since(nm)
	out.SMS = w.SMS.Since(ns)
	out.Logs = w.Log.Since(nl)
	return out
}

// HangAfter is how long a request may take before it is declared hung (a
// handler blocked for good, e.g. on a lock another request never released).
// Generous: the slowest legitimate request hashes ten recovery codes (~1 s).
var HangAfter = 30 * time.Second

// serve runs the handler under a watchdog; false means it did not return in time.
func (w *World) serve(out *Resp, rr *recWriter, req *http.Request) bool {
	done := make(chan struct{})
	go func() {
		defer close(done)
		defer func() {
			if p := recover(); p != nil {
				out.Panic = p
			}
		}()
		w.Handler.ServeHTTP(rr, req)
	}()
	t := time.NewTimer(HangAfter)
	defer t.Stop()
	select {
	case <-done:
		return true
	case <-t.C:
		return false
	}
}

// doConcurrent is Do without the per-request bookkeeping that only makes
// sense when requests are serialised (backend call lists, mail/log deltas).
func (w *World) doConcurrent(out *Resp, jar *Jar, req *http.Request, rec *Record) *Resp {
	rr := &recWriter{ResponseRecorder: httptest.NewRecorder(), jar: jar}
	out.T0 = time.Now()
	if !w.serve(out, rr, req) {
		out.T1 = time.Now()
		out.Hung = true
		out.SessAfter, out.CookAfter = out.SessBefore, out.CookBefore
		return out
	}
	out.T1 = time.Now()
	out.Status, out.Wrote, out.Header, out.Body = rr.Code, rr.wrote, rr.Header(), rr.Body.Bytes()
	if strings.HasPrefix(out.Header.Get("Content-Type"), "application/json") {
		var m map[string]interface{}
		if json.Unmarshal(out.Body, &m) == nil {
			out.JSON = m
		}
	}
	out.Location = out.Header.Get("Location")
	if out.Location == "" && out.JSON != nil {
		if s, ok := out.JSON["location"].(string); ok {
			out.Location = s
		}
	}
	out.SessAfter, out.CookAfter = jar.SessionCopy(), jar.CookieCopy()
	out.Rec = *rec
	return out
}

// Advance moves virtual time forward by d.
func (w *World) Advance(d time.Duration) {
	w.Store.ShiftTimes(d)
	for _, j := range w.Jars {
		ShiftJarTimes(j, d)
	}
	w.VClock += d
}

// Close releases the socket server, if one was started.
func (w *World) Close() {
	w.SMTP = nil // the loopback SMTP server is shared by the whole process
	if sockWorld == w {
		sockWorld = nil
	}
}

// RegisterCode teaches the fake provider an authorisation code.
func (w *World) RegisterCode(code string, id OAuthIdentity) {
	w.mu.Lock()
	w.OAuthCodes[code] = id
	w.mu.Unlock()
}

func urlQueryUnescape(s string) (string, error) { return url.QueryUnescape(s) }

// SortedModules is the canonical module list.
var SortedModules = func() []string {
	m := []string{"auth", "confirm", "lock", "logout", "oauth2", "otp", "recover", "register", "remember"}
	sort.Strings(m)
	return m
}()

var _ = abo2.FormValueOAuth2State

// SMTPMessages returns the messages the shared loopback SMTP server received since this world was built.
// SMTPEnvelopes: the accepted envelope recipients of SMTPMessages(), index by index.
func (w *World) SMTPEnvelopes() []string {
	if w.SMTP == nil {
		return nil
	}
	all := w.SMTP.Envelopes()
	if w.smtpBase > len(all) {
		return nil
	}
	return all[w.smtpBase:]
}

func (w *World) SMTPMessages() []string {
	if w.SMTP == nil {
		return nil
	}
	all := w.SMTP.Snapshot()
	if w.smtpBase > len(all) {
		return nil
	}
	return all[w.smtpBase:]
}
