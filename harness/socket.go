package harness

import (
	"bufio"
	"bytes"
	"context"
	"encoding/json"
	"fmt"
	"io"
	"net"
	"net/http"
	"net/http/httptest"
	"net/url"
	"strconv"
	"strings"
	"time"

	"golang.org/x/oauth2"
)

// Wire is a response as it appears on the socket.
type Wire struct {
	Status      int
	RawHead     string
	RawLocation string // bytes after "Location:" (leading OWS removed), "" if absent
	HasLocation bool
	Body        []byte
	JSON        map[string]interface{}
}

func (w *World) ensureServer() {
	if w.server != nil {
		return
	}
	h := http.HandlerFunc(func(rw http.ResponseWriter, r *http.Request) {
		ctx := context.WithValue(r.Context(), oauth2.HTTPClient, &http.Client{Transport: providerRT{w}})
		w.Handler.ServeHTTP(rw, r.WithContext(ctx))
	})
	w.server = httptest.NewServer(h)
}

// DoSocket sends the request over a real loopback connection and returns the
// response head exactly as written by net/http.
func (w *World) DoSocket(q Req) (*Wire, error) {
	w.ensureServer()
	req := w.BuildRequest(q)
	var body []byte
	if req.Body != nil {
		body, _ = io.ReadAll(req.Body)
	}
	target := req.URL.EscapedPath()
	if q.RawPath != "" {
		target = q.RawPath
	}
	if req.URL.RawQuery != "" {
		target += "?" + req.URL.RawQuery
	}
	var buf bytes.Buffer
	fmt.Fprintf(&buf, "%s %s HTTP/1.1\r\nHost: site.example\r\nX-Browser: %d\r\nConnection: close\r\n", req.Method, target, q.Browser)
	if ct := req.Header.Get("Content-Type"); ct != "" {
		fmt.Fprintf(&buf, "Content-Type: %s\r\n", ct)
	}
	fmt.Fprintf(&buf, "Content-Length: %d\r\n\r\n", len(body))
	buf.Write(body)

	addr := strings.TrimPrefix(w.server.URL, "http://")
	conn, err := net.DialTimeout("tcp", addr, 2*time.Second)
	if err != nil {
		return nil, err
	}
	defer conn.Close()
	_ = conn.SetDeadline(time.Now().Add(5 * time.Second))
	if _, err := conn.Write(buf.Bytes()); err != nil {
		return nil, err
	}
	raw, err := io.ReadAll(bufio.NewReader(conn))
	if err != nil && len(raw) == 0 {
		return nil, err
	}
	out := &Wire{}
	head, rest := raw, []byte(nil)
	if i := bytes.Index(raw, []byte("\r\n\r\n")); i >= 0 {
		head, rest = raw[:i], raw[i+4:]
	}
	out.RawHead = string(head)
	lines := strings.Split(out.RawHead, "\r\n")
	if len(lines) > 0 {
		parts := strings.SplitN(lines[0], " ", 3)
		if len(parts) >= 2 {
			out.Status, _ = strconv.Atoi(parts[1])
		}
	}
	chunked := false
	for _, l := range lines[1:] {
		if len(l) >= 9 && strings.EqualFold(l[:9], "location:") {
			out.HasLocation = true
			out.RawLocation = strings.TrimLeft(l[9:], " \t")
		}
		if strings.EqualFold(strings.TrimSpace(l), "transfer-encoding: chunked") {
			chunked = true
		}
	}
	if chunked {
		rest = dechunk(rest)
	}
	out.Body = rest
	var m map[string]interface{}
	if json.Unmarshal(rest, &m) == nil {
		out.JSON = m
	}
	return out, nil
}

func dechunk(b []byte) []byte {
	var out []byte
	for len(b) > 0 {
		i := bytes.Index(b, []byte("\r\n"))
		if i < 0 {
			break
		}
		n, err := strconv.ParseInt(strings.TrimSpace(string(b[:i])), 16, 64)
		if err != nil || n == 0 {
			break
		}
		b = b[i+2:]
		if int(n) > len(b) {
			n = int64(len(b))
		}
		out = append(out, b[:n]...)
		b = b[n:]
		if len(b) >= 2 {
			b = b[2:]
		}
	}
	return out
}

var _ = url.QueryEscape
