package harness

import (
	"bufio"
	"bytes"
	"context"
	"encoding/json"
	"fmt"
	"io"
	"net"
	"net/http"
	"net/http/httptest"
	"net/url"
	"strconv"
	"strings"
	"sync"
	"time"

	"golang.org/x/oauth2"
)

// Wire is a response as it appears on the socket.
type Wire struct {
	Status      int
	RawHead     string
	RawLocation string // bytes after "Location:" (leading OWS removed), "" if absent
	HasLocation bool
	Body        []byte
	JSON        map[string]interface{}
}

// One loopback server and one keep-alive client connection per process: a
// server and a connection per case would exhaust the ephemeral port range
// (TIME_WAIT) during long campaigns.
var (
	sockMu     sync.Mutex
	sockServer *httptest.Server
	sockWorld  *World
	sockConn   net.Conn
	sockReader *bufio.Reader
)

func (w *World) ensureServer() {
	if sockServer != nil {
		return
	}
	h := http.HandlerFunc(func(rw http.ResponseWriter, r *http.Request) {
		cur := sockWorld
		if cur == nil {
			http.Error(rw, "no world", 503)
			return
		}
		ctx := context.WithValue(r.Context(), oauth2.HTTPClient, &http.Client{Transport: providerRT{cur}})
		cur.Handler.ServeHTTP(rw, r.WithContext(ctx))
	})
	sockServer = httptest.NewServer(h)
}

func sockDial() error {
	if sockConn != nil {
		return nil
	}
	c, err := net.DialTimeout("tcp", strings.TrimPrefix(sockServer.URL, "http://"), 2*time.Second)
	if err != nil {
		return err
	}
	sockConn, sockReader = c, bufio.NewReader(c)
	return nil
}

func sockDrop() {
	if sockConn != nil {
		sockConn.Close()
	}
	sockConn, sockReader = nil, nil
}

// DoSocket sends the request over a real loopback connection and returns the
// response head exactly as written by net/http.
func (w *World) DoSocket(q Req) (*Wire, error) {
	sockMu.Lock()
	defer sockMu.Unlock()
	w.ensureServer()
	sockWorld = w
	req := w.BuildRequest(q)
	var body []byte
	if req.Body != nil {
		body, _ = io.ReadAll(req.Body)
	}
	target := req.URL.EscapedPath()
	if q.RawPath != "" {
		target = q.RawPath
	}
	if req.URL.RawQuery != "" {
		target += "?" + req.URL.RawQuery
	}
	var buf bytes.Buffer
	fmt.Fprintf(&buf, "%s %s HTTP/1.1\r\nHost: site.example\r\nX-Browser: %d\r\n", req.Method, target, q.Browser)
	if ct := req.Header.Get("Content-Type"); ct != "" {
		fmt.Fprintf(&buf, "Content-Type: %s\r\n", ct)
	}
	fmt.Fprintf(&buf, "Content-Length: %d\r\n\r\n", len(body))
	buf.Write(body)

	var head []byte
	var rest []byte
	for attempt := 0; ; attempt++ {
		if err := sockDial(); err != nil {
			return nil, err
		}
		_ = sockConn.SetDeadline(time.Now().Add(5 * time.Second))
		_, werr := sockConn.Write(buf.Bytes())
		var rerr error
		if werr == nil {
			head, rest, rerr = readHTTPResponse(sockReader, req.Method)
		}
		if werr == nil && rerr == nil {
			break
		}
		sockDrop()
		if attempt >= 1 {
			if werr != nil {
				return nil, werr
			}
			return nil, rerr
		}
	}
	out := &Wire{}
	out.RawHead = string(head)
	lines := strings.Split(out.RawHead, "\r\n")
	if len(lines) > 0 {
		parts := strings.SplitN(lines[0], " ", 3)
		if len(parts) >= 2 {
			out.Status, _ = strconv.Atoi(parts[1])
		}
	}
	closeAfter := false
	for _, l := range lines[1:] {
		if len(l) >= 9 && strings.EqualFold(l[:9], "location:") {
			out.HasLocation = true
			out.RawLocation = strings.TrimLeft(l[9:], " \t")
		}
		if strings.EqualFold(strings.TrimSpace(l), "connection: close") {
			closeAfter = true
		}
	}
	if closeAfter {
		sockDrop()
	}
	out.Body = rest
	var m map[string]interface{}
	if json.Unmarshal(rest, &m) == nil {
		out.JSON = m
	}
	return out, nil
}

// readHTTPResponse reads one response (head bytes verbatim, body by
// Content-Length or chunked encoding) from a keep-alive connection.
func readHTTPResponse(r *bufio.Reader, method string) (head []byte, body []byte, err error) {
	var hb bytes.Buffer
	for {
		line, e := r.ReadBytes('\n')
		if e != nil {
			return nil, nil, e
		}
		if len(line) <= 2 && strings.TrimRight(string(line), "\r\n") == "" {
			break
		}
		hb.Write(line)
	}
	head = bytes.TrimRight(hb.Bytes(), "\r\n")
	clen, chunked := -1, false
	status := 0
	for i, l := range strings.Split(string(head), "\r\n") {
		if i == 0 {
			if p := strings.SplitN(l, " ", 3); len(p) >= 2 {
				status, _ = strconv.Atoi(p[1])
			}
			continue
		}
		ll := strings.ToLower(l)
		if strings.HasPrefix(ll, "content-length:") {
			clen, _ = strconv.Atoi(strings.TrimSpace(l[15:]))
		}
		if strings.HasPrefix(ll, "transfer-encoding:") && strings.Contains(ll, "chunked") {
			chunked = true
		}
	}
	switch {
	case method == "HEAD" || status == 204 || status == 304 || (status >= 100 && status < 200):
		return head, nil, nil
	case chunked:
		var raw bytes.Buffer
		for {
			line, e := r.ReadBytes('\n')
			if e != nil {
				return nil, nil, e
			}
			raw.Write(line)
			n, perr := strconv.ParseInt(strings.TrimSpace(string(line)), 16, 64)
			if perr != nil {
				return nil, nil, perr
			}
			chunk := make([]byte, n+2)
			if _, e := io.ReadFull(r, chunk); e != nil {
				return nil, nil, e
			}
			raw.Write(chunk)
			if n == 0 {
				break
			}
		}
		return head, dechunk(raw.Bytes()), nil
	case clen >= 0:
		body = make([]byte, clen)
		if _, e := io.ReadFull(r, body); e != nil {
			return nil, nil, e
		}
		return head, body, nil
	}
	return head, nil, nil
}

func dechunk(b []byte) []byte {
	var out []byte
	for len(b) > 0 {
		i := bytes.Index(b, []byte("\r\n"))
		if i < 0 {
			break
		}
		n, err := strconv.ParseInt(strings.TrimSpace(string(b[:i])), 16, 64)
		if err != nil || n == 0 {
			break
		}
		b = b[i+2:]
		if int(n) > len(b) {
			n = int64(len(b))
		}
		out = append(out, b[:n]...)
		b = b[n:]
		if len(b) >= 2 {
			b = b[2:]
		}
	}
	return out
}

var _ = url.QueryEscape
