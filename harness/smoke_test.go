package harness

import (
	"testing"
	"time"
)

func TestSmoke(t *testing.T) {
	for _, js := range []bool{false, true} {
		cfg := Config{Seed: 7, Modules: []string{"auth", "confirm", "lock", "logout", "otp", "recover", "register", "remember", "oauth2"},
			Setups: []string{"totp", "sms", "recovery"}, Mount: "/auth", JSON: js, Browsers: 2, Middleware: "remember",
			Providers: []string{"goog"}, Refusal: 1,
			Accounts: []AccountSpec{{PID: "a@x.io", Password: "Passw0rd!a", OTPs: 2}, {PID: "b@x.io", Password: "Passw0rd!b", TOTP: true, Recovery: 2}}}
		w, err := NewWorld(cfg)
		if err != nil {
			t.Fatal(err)
		}
		r := w.Do(Req{Browser: 0, Method: "POST", Path: w.Path("/register"), Form: map[string]string{"email": "n@x.io", "password": "Abcdef1!x", "confirm_password": "Abcdef1!x"}})
		t.Logf("register: %d loc=%q sess=%v mails=%d err=%v panic=%v body=%s", r.Status, r.Location, r.SessAfter, len(r.Mails), r.Rec.HandlerErr, r.Panic, r.Body)
		if len(r.Mails) != 1 || r.Mails[0].Token == "" {
			t.Fatalf("no confirm mail: %+v", r.Mails)
		}
		tok := r.Mails[0].Token
		r = w.Do(Req{Browser: 0, Method: "POST", Path: w.Path("/login"), Form: map[string]string{"email": "n@x.io", "password": "Abcdef1!x"}})
		t.Logf("login unconfirmed: %d loc=%q sess=%v", r.Status, r.Location, r.SessAfter)
		if js {
			r = w.Do(Req{Browser: 0, Method: "GET", Path: w.Path("/confirm"), Form: map[string]string{"cnf": tok}})
		} else {
			r = w.Do(Req{Browser: 0, Method: "GET", Path: w.Path("/confirm"), Query: map[string][]string{"cnf": {tok}}})
		}
		t.Logf("confirm: %d loc=%q sess=%v confirmed=%v", r.Status, r.Location, r.SessAfter, w.Store.Peek("n@x.io").Confirmed)
		r = w.Do(Req{Browser: 0, Method: "POST", Path: w.Path("/login"), Form: map[string]string{"email": "n@x.io", "password": "Abcdef1!x", "rm": "true"}})
		t.Logf("login: %d loc=%q sess=%v cook=%v calls=%v", r.Status, r.Location, r.SessAfter, r.CookAfter, r.Calls)
		if r.UID() != "n@x.io" {
			t.Fatal("not logged in")
		}
		r = w.Do(Req{Browser: 0, Method: "GET", Path: "/p/full"})
		t.Logf("probe: %d ran=%v uid=%q", r.Status, r.Rec.ProbeRan, r.Rec.ProbeUID)
		w.Jars[0].ClearSession()
		r = w.Do(Req{Browser: 0, Method: "GET", Path: "/p/full"})
		t.Logf("probe half: %d ran=%v loc=%q sess=%v", r.Status, r.Rec.ProbeRan, r.Location, r.SessAfter)
		r = w.Do(Req{Browser: 0, Method: "GET", Path: "/p/none"})
		t.Logf("probe none: %d ran=%v uid=%q", r.Status, r.Rec.ProbeRan, r.Rec.ProbeUID)
		// totp login
		r = w.Do(Req{Browser: 1, Method: "POST", Path: w.Path("/login"), Form: map[string]string{"email": "b@x.io", "password": "Passw0rd!b"}})
		t.Logf("login2fa: %d loc=%q sess=%v", r.Status, r.Location, r.SessAfter)
		// oauth2
		r = w.Do(Req{Browser: 1, Method: "GET", Path: w.Path("/oauth2/goog"), Query: map[string][]string{"redir": {"/after"}, "rm": {"true"}}})
		t.Logf("o2 start: %d loc=%q sess=%v", r.Status, r.Location, r.SessAfter)
		w.RegisterCode("c1", OAuthIdentity{UID: "u;1", Email: "o@x.io"})
		r = w.Do(Req{Browser: 1, Method: "GET", Path: w.Path("/oauth2/callback/goog"), Query: map[string][]string{"state": {r.SessAfter["oauth2_state"]}, "code": {"c1"}}})
		t.Logf("o2 end: %d loc=%q sess=%v cook=%v err=%v", r.Status, r.Location, r.SessAfter, r.CookAfter, r.Rec.HandlerErr)
		w.Advance(time.Hour)
	}
}
