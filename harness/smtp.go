package harness

import (
	"bufio"
	"net"
	"regexp"
	"strings"
	"sync"
)

// SyncBuffer is a goroutine-safe io.Writer that keeps every write as one entry
// (the shipped Logger and LogMailer write exactly once per line / mail).
type SyncBuffer struct {
	mu      sync.Mutex
	Entries []string
	OnWrite func(string)
}

func (b *SyncBuffer) Write(p []byte) (int, error) {
	b.mu.Lock()
	b.Entries = append(b.Entries, string(p))
	cb := b.OnWrite
	b.mu.Unlock()
	if cb != nil {
		cb(string(p))
	}
	return len(p), nil
}

func (b *SyncBuffer) Snapshot() []string {
	b.mu.Lock()
	defer b.mu.Unlock()
	return append([]string(nil), b.Entries...)
}

// Messages reads the buffer as a stream of mails: how many Write calls a mailer needs for one
// message is its own business, so the writes are joined and cut again where a message starts
// (a "To: " header at the beginning of a line).
func (b *SyncBuffer) Messages() []string {
	all := strings.Join(b.Snapshot(), "")
	var out []string
	start := -1
	for i := 0; i+4 <= len(all); i++ {
		if all[i:i+4] == "To: " && (i == 0 || all[i-1] == '\n') {
			if start >= 0 {
				out = append(out, all[start:i])
			}
			start = i
		}
	}
	if start >= 0 {
		out = append(out, all[start:])
	}
	return out
}

// FakeSMTP is a minimal loopback SMTP server that records messages.
type FakeSMTP struct {
	ln   net.Listener
	mu   sync.Mutex
	Msgs []string
	Rcpt []string // per message: the envelope recipients the server accepted (lower-cased, comma-separated)
	wg   sync.WaitGroup
}

func NewFakeSMTP() (*FakeSMTP, error) {
	ln, err := net.Listen("tcp", "127.0.0.1:0")
	if err != nil {
		return nil, err
	}
	s := &FakeSMTP{ln: ln}
	go s.serve()
	return s, nil
}

var (
	sharedSMTPMu sync.Mutex
	sharedSMTP   *FakeSMTP
)

// SharedSMTP returns the process-wide loopback SMTP server (started on first use).
func SharedSMTP() (*FakeSMTP, error) {
	sharedSMTPMu.Lock()
	defer sharedSMTPMu.Unlock()
	if sharedSMTP == nil {
		s, err := NewFakeSMTP()
		if err != nil {
			return nil, err
		}
		sharedSMTP = s
	}
	return sharedSMTP, nil
}

func (s *FakeSMTP) Addr() string { return s.ln.Addr().String() }

// Envelopes returns, per captured message, the accepted envelope recipients.
func (s *FakeSMTP) Envelopes() []string {
	s.mu.Lock()
	defer s.mu.Unlock()
	return append([]string(nil), s.Rcpt...)
}
func (s *FakeSMTP) Close()       { s.ln.Close() }

func (s *FakeSMTP) serve() {
	for {
		c, err := s.ln.Accept()
		if err != nil {
			return
		}
		go s.handle(c)
	}
}

func (s *FakeSMTP) handle(c net.Conn) {
	defer c.Close()
	r := bufio.NewReader(c)
	w := func(l string) { _, _ = c.Write([]byte(l + "\r\n")) }
	w("220 fake ESMTP")
	var rcpt []string
	for {
		line, err := r.ReadString('\n')
		if err != nil {
			return
		}
		cmd := strings.ToUpper(strings.TrimSpace(line))
		switch {
		case strings.HasPrefix(cmd, "EHLO"), strings.HasPrefix(cmd, "HELO"):
			w("250 fake")
		case strings.HasPrefix(cmd, "RCPT") && strings.Contains(cmd, "@REFUSE."):
			// mailboxes of the refuse.* domains bounce: the mailer's error path
			w("550 no such mailbox")
		case strings.HasPrefix(cmd, "MAIL"), strings.HasPrefix(cmd, "RCPT"), strings.HasPrefix(cmd, "RSET"), strings.HasPrefix(cmd, "NOOP"):
			if strings.HasPrefix(cmd, "MAIL") || strings.HasPrefix(cmd, "RSET") {
				rcpt = nil
			}
			if strings.HasPrefix(cmd, "RCPT") {
				if i, j := strings.IndexByte(line, '<'), strings.IndexByte(line, '>'); i >= 0 && j > i {
					rcpt = append(rcpt, strings.ToLower(line[i+1:j]))
				}
			}
			w("250 ok")
		case strings.HasPrefix(cmd, "DATA"):
			w("354 go")
			var sb strings.Builder
			for {
				l, err := r.ReadString('\n')
				if err != nil {
					return
				}
				if l == ".\r\n" {
					break
				}
				sb.WriteString(l)
			}
			s.mu.Lock()
			s.Msgs = append(s.Msgs, sb.String())
			s.Rcpt = append(s.Rcpt, strings.Join(rcpt, ","))
			s.mu.Unlock()
			w("250 queued")
		case strings.HasPrefix(cmd, "QUIT"):
			w("221 bye")
			return
		default:
			w("250 ok")
		}
	}
}

func (s *FakeSMTP) Snapshot() []string {
	s.mu.Lock()
	defer s.mu.Unlock()
	return append([]string(nil), s.Msgs...)
}

var tokenRe = regexp.MustCompile(`(?:cnf|token)=([A-Za-z0-9_\-]+(?:%3D)*)`)

// RawMailTokens finds the tokens of raw (RFC 822 style) mails addressed to `to`
// whose text contains `marker` (e.g. "/confirm" or "/recover/end").
func RawMailTokens(msgs []string, to, marker string) []string {
	var out []string
	for _, m := range msgs {
		if !strings.Contains(m, "To: "+to) || !strings.Contains(m, marker) {
			continue
		}
		if mt := tokenRe.FindStringSubmatch(m); mt != nil {
			out = append(out, strings.ReplaceAll(mt[1], "%3D", "="))
		}
	}
	return out
}
